#!/bin/bash
# eval_batch.sh <jobs> <change-id-regex>   run the targeted evaluations of seeded/targets.tsv whose change id matches
cd /verif
grep -v '^#' seeded/targets.tsv | while IFS=$'\t' read -r id chk only; do
  if [[ "$id" =~ $2 ]]; then
    echo "=== $id $chk $only $(date +%T)"
    python3 bin/eval_seeded.py --checks "$chk" --only "$only" --jobs "$1" "$id" 2>&1 | tail -1 | cut -c1-300
  fi
done
