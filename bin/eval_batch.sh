#!/bin/bash
# eval_batch.sh <jobs> <change-id-regex> [extra eval_seeded.py flags]   evaluate the seeded changes whose id matches
cd /verif; j=$1; re=$2; shift; shift
for id in $(grep -v '^#' seeded/targets.tsv | cut -f1 | sort -u); do
  if [[ "$id" =~ $re ]]; then python3 bin/eval_seeded.py --jobs "$j" "$@" "$id" 2>&1 | grep -v "^WARNING"; fi
done
