#!/usr/bin/env python3
"""Replaces the table of DESIGN.md section 9 (between the markers) by the current rendering of seeded/RESULTS.json."""
import pathlib, subprocess, re
V = pathlib.Path(__file__).resolve().parent.parent
t = subprocess.run(['python3', str(V / 'bin' / 'seeded_matrix.py')], text=True, capture_output=True).stdout.strip()
p = V / 'DESIGN.md'
s = p.read_text()
block = '<!-- matrix:begin -->\n' + t + '\n<!-- matrix:end -->'
if '@@MATRIX@@' in s:
    s = s.replace('@@MATRIX@@', block)
else:
    s = re.sub(r'<!-- matrix:begin -->.*?<!-- matrix:end -->', lambda m: block, s, flags=re.S)
p.write_text(s)
