#!/usr/bin/env python3
"""eval_seeded.py [--jobs N] [--no-quick] [--no-targeted] <seeded-id>...
Runs the registered checks against seeded breaking changes (seeded/<id>/patch.diff).  Each change is applied
in its own git worktree of /repo (never in /repo itself) and the check is pointed at it with VERIF_REPO; the
worktree is removed afterwards.  Two stages per (change, check) row of seeded/targets.tsv:
  quick     the check's quick command as registered (the fixed quick subset)
  targeted  (only if quick did not detect it) the harnesses of the thorough tier named in targets.tsv
Results are merged into seeded/RESULTS.json (latest result per change/check/stage wins)."""
import argparse, json, os, pathlib, subprocess, sys, time
V = pathlib.Path(__file__).resolve().parent.parent

def sh(c, **kw):
    return subprocess.run(c, shell=True, text=True, capture_output=True, **kw)

ap = argparse.ArgumentParser()
ap.add_argument('ids', nargs='+')
ap.add_argument('--jobs', default='7')
ap.add_argument('--no-quick', action='store_true')
ap.add_argument('--no-targeted', action='store_true')
ap.add_argument('--skip-done', action='store_true', help='skip (change, check, stage) rows already present in RESULTS.json')
ap.add_argument('--no-replay', action='store_true', help='list counterexamples without the native replay (exit 3); saves two cargo-kani runs per detection')
a = ap.parse_args()
targets = {}
for line in (V / 'seeded' / 'targets.tsv').read_text().splitlines():
    if line.startswith('#') or not line.strip():
        continue
    sid, chk, only = line.split('\t')
    targets.setdefault(sid, []).append((chk, only))
rp = V / 'seeded' / 'RESULTS.json'

def run(sid, wt, chk, stage, only):
    if a.skip_done and rp.exists():
        prev = json.loads(rp.read_text()).get(f'{sid}/{chk}/{stage}')
        if prev:
            print(sid, chk, stage, 'already evaluated:', 'DETECTED' if prev['detected'] else 'missed', flush=True)
            return prev
    env = dict(os.environ, VERIF_REPO=str(wt), VERIF_JOBS=a.jobs)
    if a.no_replay:
        env['VERIF_NO_REPLAY'] = '1'
    t0 = time.time()
    cmd = f'{V}/bin/check {chk} --no-evidence ' + ('--tier quick' if stage == 'quick' else f'--tier thorough --only {only}')
    p = subprocess.run(cmd, shell=True, text=True, capture_output=True, env=env, cwd=V)
    viol = [l for l in p.stdout.splitlines() if l.startswith('VIOLATION')]
    fails = [l.split()[1].split('::')[-1] for l in p.stdout.splitlines() if l.strip().startswith('FAIL')]
    inconc = [l.split()[1].split('::')[-1] for l in p.stdout.splitlines() if l.strip().startswith('INCONCLUSIVE ') and '::' in l]
    r = {'exit': p.returncode, 'detected': (p.returncode == 1 and bool(viol)) or (p.returncode == 3 and bool(fails)), 'replayed': p.returncode == 1, 'violations': viol, 'failing': fails,
         'inconclusive': inconc, 'wall_s': round(time.time() - t0), 'stage': stage, 'only': only if stage != 'quick' else None}
    (V / 'seeded' / sid / f'result_{chk}_{stage}.txt').write_text(p.stdout[-20000:])
    allr = json.loads(rp.read_text()) if rp.exists() else {}
    allr[f'{sid}/{chk}/{stage}'] = r
    rp.write_text(json.dumps(allr, indent=1, sort_keys=True))
    print(sid, chk, stage, 'exit', p.returncode, 'DETECTED' if r['detected'] else 'missed', fails[:3], inconc[:3], f"{r['wall_s']}s", flush=True)
    return r

for sid in a.ids:
    d = V / 'seeded' / sid
    wt = pathlib.Path(f'/tmp/mut-{sid}')
    sh(f'git -C /repo worktree remove --force {wt}')
    r = sh(f'git -C /repo worktree add --detach {wt} HEAD')
    assert r.returncode == 0, r.stderr
    r = sh(f'git apply {d}/patch.diff', cwd=wt)
    if r.returncode != 0:
        print(sid, 'patch does not apply'); sh(f'git -C /repo worktree remove --force {wt}'); continue
    try:
        for chk, only in targets.get(sid, []):
            det = False
            if not a.no_quick:
                det = run(sid, wt, chk, 'quick', None)['detected']
            if not det and not a.no_targeted:
                run(sid, wt, chk, 'targeted', only)
    finally:
        sh(f'git -C /repo worktree remove --force {wt}')
