#!/usr/bin/env python3
"""eval_seeded.py [--tier quick] [--checks C08,C13] [--jobs N] <seeded-id>...
Runs the registered check(s) against seeded breaking changes.  Each change is applied in its own git
worktree of /repo (never in /repo itself) and the check is pointed at it with VERIF_REPO; the worktree
is removed afterwards.  Default check = the property named in the change's meta.json."""
import argparse, json, os, pathlib, subprocess, sys, time
V = pathlib.Path(__file__).resolve().parent.parent

def sh(c, **kw):
    return subprocess.run(c, shell=True, text=True, capture_output=True, **kw)

ap = argparse.ArgumentParser()
ap.add_argument('ids', nargs='+')
ap.add_argument('--tier', default='quick')
ap.add_argument('--checks', default=None)
ap.add_argument('--jobs', default='8')
ap.add_argument('--only', default=None)
a = ap.parse_args()
out = {}
for sid in a.ids:
    d = V / 'seeded' / sid
    meta = json.loads((d / 'meta.json').read_text())
    checks = a.checks.split(',') if a.checks else [meta['property']]
    wt = pathlib.Path(f'/tmp/mut-{sid}')
    sh(f'git -C /repo worktree remove --force {wt}')
    r = sh(f'git -C /repo worktree add --detach {wt} HEAD')
    assert r.returncode == 0, r.stderr
    r = sh(f'git apply {d}/patch.diff', cwd=wt)
    if r.returncode != 0:
        out[sid] = 'patch does not apply'; print(sid, out[sid]); sh(f'git -C /repo worktree remove --force {wt}'); continue
    for c in checks:
        env = dict(os.environ, VERIF_REPO=str(wt), VERIF_JOBS=a.jobs)
        t0 = time.time()
        cmd = f'{V}/bin/check {c} --tier {a.tier} --no-evidence' + (f' --only {a.only}' if a.only else '')
        p = subprocess.run(cmd, shell=True, text=True, capture_output=True, env=env, cwd=V)
        viol = [l for l in p.stdout.splitlines() if l.startswith('VIOLATION')]
        fails = [l.strip()[:160] for l in p.stdout.splitlines() if l.strip().startswith('FAIL')]
        out[f'{sid}/{c}'] = {'exit': p.returncode, 'violations': viol, 'failing': fails, 'wall_s': round(time.time() - t0)}
        print(sid, c, 'exit', p.returncode, viol[:2], fails[:3], flush=True)
        (V / 'seeded' / sid / f'result_{c}_{a.tier}.txt').write_text(p.stdout[-20000:])
    sh(f'git -C /repo worktree remove --force {wt}')
json.dump(out, open('/tmp/eval_seeded_last.json', 'w'), indent=1)
# committed summary of every evaluation ever run (latest result per change/check wins)
rp = V / 'seeded' / 'RESULTS.json'
allr = json.loads(rp.read_text()) if rp.exists() else {}
for k, v in out.items():
    if isinstance(v, dict):
        v['tier'] = a.tier
        v['only'] = a.only
        v['detected'] = v['exit'] == 1 and bool(v['violations'])
    allr[k] = v
rp.write_text(json.dumps(allr, indent=1, sort_keys=True))
