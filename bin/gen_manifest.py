#!/usr/bin/env python3
"""Regenerates /verif/MANIFEST.json from /verif/manifest_src.json (claimed checks + not-applicable list)."""
import json, pathlib
V = pathlib.Path(__file__).resolve().parent.parent
src = json.loads((V / 'manifest_src.json').read_text())
props = [json.loads(l)['id'] for l in (V / 'properties.jsonl').read_text().splitlines() if l.strip()]
checks = []
for pid, c in src['checks'].items():
    checks.append({
        'property_id': pid,
        'quick_cmd': f'bin/check {pid} --tier quick',
        'thorough_cmd': f'bin/check {pid} --tier thorough',
        'evidence_file': f'/verif/evidence/{pid}.json',
        'replay_cmd_template': 'cat {path}   # JSON: harness, failing checks, concrete values, generated native playback test and how to run it',
        'engine': 'kani-cbmc',
        'level_claimed': {'category': 'model_checking', 'text': c['level_text'], 'design_ref': c['design_ref']},
        'level_note': c['level_note'],
        'technique': c['technique'],
    })
na = [{'property_id': k, 'reason': v} for k, v in src['not_applicable'].items()]
claimed = set(src['checks'])
missing = [p for p in props if p not in claimed and p not in src['not_applicable']]
assert not missing, f'properties neither claimed nor not_applicable: {missing}'
assert not (claimed & set(src['not_applicable'])), 'property both claimed and not applicable'
for e in src['engines']:
    if e.get('name') == 'kani-cbmc':
        e['serves_properties'] = sorted(claimed)
m = {
    'version': 1,
    'setup_cmd': src['setup_cmd'],
    'hooks': src['hooks'],
    'engines': src['engines'],
    'checks': checks,
    'notes': src['notes'],
    'not_applicable': na,
}
(V / 'MANIFEST.json').write_text(json.dumps(m, indent=1) + '\n')
print('MANIFEST.json:', len(checks), 'checks,', len(na), 'not applicable')
