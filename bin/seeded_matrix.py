#!/usr/bin/env python3
"""seeded_matrix.py: renders seeded/RESULTS.json as the markdown table of DESIGN.md section 9 (stdout)."""
import json, pathlib
V = pathlib.Path(__file__).resolve().parent.parent
R = json.loads((V / 'seeded' / 'RESULTS.json').read_text()) if (V / 'seeded' / 'RESULTS.json').exists() else {}
KNOWN = {k['harness'].split('::')[-1] for k in json.loads((V / 'known_findings.json').read_text()).get('open', [])}
rows = {}
for k, v in R.items():
    if k.count('/') != 2:
        continue  # rows of the older one-stage format
    sid, chk, stage = k.split('/')
    rows.setdefault((sid, chk), {})[stage] = v
print('| change | breaks | check | quick tier | thorough (targeted harnesses) | caught by |')
print('| --- | --- | --- | --- | --- | --- |')
def cell(v):
    if v is None:
        return 'not run'
    if v['detected']:
        return f"**VIOLATION** ({v['wall_s']} s)" if v.get('replayed', True) else f"**counterexample** (replay skipped, {v['wall_s']} s)"
    if v['exit'] == 2:
        return f"inconclusive ({', '.join(v['inconclusive'][:2]) or 'see log'})"
    return f"missed (exit {v['exit']})"
for (sid, chk), st in sorted(rows.items()):
    meta = json.loads((V / 'seeded' / sid / 'meta.json').read_text())
    q, t = st.get('quick'), st.get('targeted')
    by = []
    for v in (q, t):
        if v and v['detected']:
            by += [f for f in v['failing'] if f not in by and f not in KNOWN]
    print(f"| {sid} | {meta.get('property', '?')} | {chk} | {cell(q)} | {cell(t) if not (q and q['detected']) else '-'} | {', '.join(by[:4])} |")
