#!/usr/bin/env python3
"""Confirms candidate breaking changes (written by independent sub-agents into /tmp/seed-out/<ID>-k/)
against /repo's current HEAD in a scratch worktree and files the confirmed ones under /verif/seeded/<ID>-k/.
A candidate is kept only if: the patch applies, the pinned test suite still passes with it (52 tests),
the demonstration FAILS with it and PASSES without it."""
import json, pathlib, re, shutil, subprocess, sys
SRC = pathlib.Path('/tmp/seed-out')
DST = pathlib.Path('/verif/seeded')
WT = pathlib.Path('/tmp/seedchk')

def sh(cmd, cwd=None, timeout=1800):
    p = subprocess.run(cmd, shell=True, cwd=cwd, text=True, capture_output=True, timeout=timeout)
    return p.returncode, p.stdout + p.stderr

def passed_counts(out):
    return sum(int(x) for x in re.findall(r'test result: ok\. (\d+) passed', out)), 'FAILED' in out or 'failed;' in re.sub(r' 0 failed;', '', out)

def main():
    only = sys.argv[1:] 
    sh(f'git -C /repo worktree remove --force {WT}')
    rc, out = sh(f'git -C /repo worktree add --detach {WT} HEAD')
    assert rc == 0, out
    results = {}
    try:
        for d in sorted(SRC.glob('C??-?')):
            name = d.name
            if only and name not in only:
                continue
            if (DST / name / 'meta.json').exists() and not only:
                continue
            patch = d / 'patch.diff'
            demo = d / 'demo_test.rs'
            if not patch.exists() or not demo.exists():
                continue
            sh('git checkout -- . && git clean -fdq -e target', cwd=WT)
            rc, out = sh(f'git apply --3way {patch}', cwd=WT)
            if rc != 0:
                rc, out = sh(f'git apply {patch}', cwd=WT)
            if rc != 0 or 'with conflicts' in out:
                results[name] = 'patch does not apply to the current (repaired) tree'
                print(name, results[name]); continue
            sh('git reset -q', cwd=WT)
            rc, out = sh('cargo test --workspace --offline 2>&1', cwd=WT)
            n, failed = passed_counts(out)
            if rc != 0 or n < 52:
                results[name] = f'suite does not pass with the change ({n} passed, rc={rc})'
                print(name, results[name]); continue
            shutil.copy(demo, WT / 'tests/demo_test.rs')
            rc1, out1 = sh('cargo test --offline --test demo_test 2>&1', cwd=WT)
            fails_with = rc1 != 0 and 'test result: FAILED' in out1
            (WT / 'tests/demo_test.rs').unlink()
            sh('git checkout -- .', cwd=WT)
            shutil.copy(demo, WT / 'tests/demo_test.rs')
            rc2, out2 = sh('cargo test --offline --test demo_test 2>&1', cwd=WT)
            passes_without = rc2 == 0
            (WT / 'tests/demo_test.rs').unlink()
            if not (fails_with and passes_without):
                results[name] = f'demo: fails_with_change={fails_with} passes_without={passes_without}'
                print(name, results[name]); continue
            out_dir = DST / name
            out_dir.mkdir(parents=True, exist_ok=True)
            # store the patch as a diff against the current HEAD
            sh('git checkout -- .', cwd=WT)
            sh(f'git apply --3way {patch} || git apply {patch}', cwd=WT); sh('git reset -q', cwd=WT)
            rc, diff = sh('git diff', cwd=WT)
            (out_dir / 'patch.diff').write_text(diff)
            shutil.copy(demo, out_dir / 'demo_test.rs')
            meta = json.loads((d / 'meta.json').read_text()) if (d / 'meta.json').exists() else {}
            meta.update({'property': name.split('-')[0], 'confirmed': {
                'head': subprocess.run('git -C /repo log --format=%h -1', shell=True, text=True, capture_output=True).stdout.strip(),
                'suite_with_change': f'{n} passed', 'demo_with_change': 'FAILED', 'demo_without_change': 'ok',
                'ran': ['cargo test --workspace --offline', 'cargo test --offline --test demo_test (with / without the change)']}})
            (out_dir / 'meta.json').write_text(json.dumps(meta, indent=1))
            results[name] = 'confirmed'
            print(name, 'confirmed', flush=True)
    finally:
        sh(f'git -C /repo worktree remove --force {WT}')
    json.dump(results, open('/tmp/seed-out/confirm_results.json', 'w'), indent=1)

main()
