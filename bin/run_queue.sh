#!/bin/bash
# run_queue.sh <jobs> <ID>...   : runs the quick checks one after the other, logs to /tmp/run_<ID>.log
jobs=$1; shift
for id in "$@"; do
  echo "=== $id start $(date +%T)" >> /tmp/run_queue.log
  /verif/bin/check $id --tier ${TIER:-quick} --jobs $jobs > /tmp/run_$id.log 2>&1
  echo "=== $id exit $? $(date +%T)" >> /tmp/run_queue.log
done
