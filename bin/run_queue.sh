#!/bin/bash
# run_queue.sh <name> <jobs> <ID>...   : runs the checks one after the other, logs to /tmp/run_<ID>.log
name=$1; jobs=$2; shift; shift
for id in "$@"; do
  echo "=== $id start $(date +%T)" >> /tmp/queue_$name.log
  /verif/bin/check $id --tier ${TIER:-quick} --jobs $jobs > /tmp/run_$id.log 2>&1
  echo "=== $id exit $? $(date +%T)" >> /tmp/queue_$name.log
done
