#!/bin/bash
jobs=$1; shift
for id in "$@"; do
  echo "=== $id start $(date +%T)" >> /tmp/run_queue2.log
  /verif/bin/check $id --tier ${TIER:-quick} --jobs $jobs > /tmp/run_$id.log 2>&1
  echo "=== $id exit $? $(date +%T)" >> /tmp/run_queue2.log
done
