#!/usr/bin/env python3
"""Patch a *scratch copy* of /repo for Kani: std-model substitution + harness injection.

Nothing here ever touches /repo.  Every rewrite is anchored on the crate's own `use` lines; if an
anchor that must exist is missing the patcher raises PatchError and the check reports
"inconclusive" (exit 2) instead of passing or raising an alarm.
"""
import re, pathlib, shutil

class PatchError(Exception):
    pass

MODEL_PATHS = {
    'std::sync::Arc': 'Arc',
    'std::collections::HashMap': 'HashMap',
    'std::collections::HashSet': 'HashSet',
    'std::collections::hash_set::Iter': 'Iter',
    'std::sync::RwLock': 'RwLock',
}

def _split_top(s):
    out, depth, cur = [], 0, ''
    for ch in s:
        if ch == '{':
            depth += 1
        if ch == '}':
            depth -= 1
        if ch == ',' and depth == 0:
            out.append(cur)
            cur = ''
        else:
            cur += ch
    if cur.strip():
        out.append(cur)
    return [x.strip() for x in out if x.strip()]

def _flatten(prefix, item):
    m = re.match(r'^([\w:#]+?)::\{(.*)\}$', item, re.S)
    if m:
        res = []
        for sub in _split_top(m.group(2)):
            res += _flatten(prefix + m.group(1) + '::', sub)
        return res
    return [prefix + item]

def _rewrite_use(m):
    vis, body = m.group(1) or '', m.group(2)
    paths = _flatten('', body.strip())
    keep, model = [], []
    for p in paths:
        if p in MODEL_PATHS:
            model.append(MODEL_PATHS[p])
        else:
            keep.append(p)
    if not model:
        return m.group(0)
    out = ''.join(f'{vis}use {p};\n' for p in keep)
    out += f'{vis}use crate::verif_model::{{{", ".join(model)}}};'
    return out

def apply_models(root: pathlib.Path, model_src: pathlib.Path):
    """Replace std Arc/HashMap/HashSet by crate::verif_model in the scratch copy."""
    touched = []
    for f in sorted(list(root.glob('src/**/*.rs')) + list(root.glob('macros/src/*.rs'))):
        if f.name.startswith('verif_'):
            continue
        s = f.read_text()
        o = s
        s = re.sub(r'^([ \t]*(?:pub(?:\([a-z]+\))? )?)use (std::[^;]*);', _rewrite_use, s, flags=re.M)
        inmac = 'macros' in f.relative_to(root).parts
        base = 'simplesl::verif_model::' if inmac else 'crate::verif_model::'
        # the thin-pointer Arc model has no unsized coercion Arc<[T; N]> -> Arc<[T]>: use From<[T; N]>
        s = s.replace('Arc::new([', 'Arc::from([')
        s = s.replace('std::sync::Arc', base + 'Arc')
        s = s.replace('std::collections::HashMap', base + 'HashMap')
        s = s.replace('std::collections::HashSet', base + 'HashSet')
        if s != o:
            f.write_text(s)
            touched.append(str(f.relative_to(root)))
    lib = root / 'src/lib.rs'
    if not lib.exists():
        raise PatchError('src/lib.rs missing')
    t = lib.read_text()
    shutil.copy(model_src, root / 'src/verif_model.rs')
    feats = "#![feature(arbitrary_self_types, coerce_unsized, unsize)]\n#![recursion_limit = \"512\"]\n#![allow(internal_features, unused_imports, dead_code)]\n"
    lib.write_text(feats + 'pub mod verif_model;\n' + t)
    # sanity: no std Arc/HashMap/HashSet import may survive in src/
    for f in root.glob('src/**/*.rs'):
        if f.name.startswith('verif_'):
            continue
        txt = f.read_text()
        for bad in ('std::sync::Arc', 'std::collections::HashMap', 'std::collections::HashSet'):
            if bad in txt:
                raise PatchError(f'{f}: {bad} survived model substitution')
        for m in re.finditer(r'use std::[^;]*;', txt, flags=re.S):
            if re.search(r'\b(Arc|HashMap|HashSet)\b', m.group(0)):
                raise PatchError(f'{f}: unrewritten std import {m.group(0)!r}')
    return touched

# Data-carrying enums of the crate get an explicit tag (`#[repr(u8)]`) in the scratch copy.  rustc
# otherwise stores e.g. the discriminant of `Instruction` in the niche of the embedded `Variable`'s
# own tag; for values living in heap objects CBMC cannot recover such a tag and walks every arm.
# This changes layout only, never behaviour.
REPR_ENUMS = {
    'src/variable.rs': ['Variable'],
    'src/instruction.rs': ['Instruction', 'ExecStop'],
    'src/variable/type.rs': ['Type'],
    'src/instruction/local_variable.rs': ['LocalVariable'],
    'src/instruction/control_flow/match_arm.rs': ['MatchArm'],
    'src/function/body.rs': ['Body'],
}

def open_fields(root: pathlib.Path):
    """Make the private fields of the instruction structs `pub(crate)` in the scratch copy so that one
    harness module can build any instruction by struct literal (visibility only, no behaviour)."""
    n = 0
    for f in sorted(root.glob('src/instruction/**/*.rs')) + [root / 'src/instruction.rs']:
        if f.name.startswith('verif_') or not f.exists():
            continue
        s = f.read_text()
        def fix(m):
            nonlocal n
            body = re.sub(r'^(\s+)(?!pub\b)(?!//)(?!#)([a-z_][a-z0-9_]*\s*:)', lambda mm: (mm.group(1) + 'pub(crate) ' + mm.group(2)), m.group(2), flags=re.M)
            n += 1
            return m.group(1) + body + m.group(3)
        s2 = re.sub(r'(pub(?:\(crate\))? struct \w+ \{\n)(.*?)(\n\})', fix, s, flags=re.S)
        # private sub-modules and private inherent methods become crate-visible too
        s2 = re.sub(r'^mod ((?:r#)?\w+);', r'pub(crate) mod \1;', s2, flags=re.M)
        def fix_impl(m):
            return m.group(1) + re.sub(r'^    fn ', '    pub(crate) fn ', m.group(2), flags=re.M) + m.group(3)
        s2 = re.sub(r'(^impl(?:<[^>]*>)? \w+(?:<[^>]*>)? \{\n)(.*?)(^\}\n)', fix_impl, s2, flags=re.S | re.M)
        if s2 != s:
            f.write_text(s2)
    return n

def apply_gating(root: pathlib.Path):
    """Declared-shape gating (scratch copy, cfg(kani) only).  CBMC cannot resolve the tag of an
    `Instruction` stored in a heap object larger than 16 bytes, so `Instruction::{exec,recreate,
    return_type}` would be explored through all 25 kinds at every level.  Each arm of those three
    dispatchers gets a first statement `gate_of(ins)`: a harness may declare the set of instruction
    kinds its tree contains (`verif_common::allow(..)`); an arm of an undeclared kind then ends in
    `panic!` instead of being explored.  Sound: if a real execution reaches an undeclared kind the
    panic is reachable and the harness FAILS.  Default: every kind allowed (no effect)."""
    f = root / 'src/instruction.rs'
    s = f.read_text()
    m = re.search(r'pub enum Instruction \{\n(.*?)\n\}', s, re.S)
    if not m:
        return []
    variants = []
    for line in m.group(1).splitlines():
        mm = re.match(r'\s+(\w+)\((.+)\),\s*$', line)
        if mm and ',' not in mm.group(2):
            variants.append((mm.group(1), mm.group(2)))
    gen = ['', '#[cfg(kani)]', 'pub mod verif_gate {', '    use super::*;',
           '    pub trait VerifKind { const K: u32; }']
    for i, (name, ty) in enumerate(variants):
        gen.append(f'    impl VerifKind for {ty} {{ const K: u32 = {i}; }}')
        gen.append(f'    pub const K_{name.upper()}: u32 = {i};')
    gen += ['    pub static mut ALLOWED: u32 = u32::MAX;',
            '    /// mask = OR of (1 << K_x); no loop here: harness unwind bounds must stay minimal',
            '    pub fn allow_mask(m: u32) { unsafe { ALLOWED = m; } }',
            '    pub fn allow_all() { unsafe { ALLOWED = u32::MAX; } }',
            '    // per-level declaration: the dispatchers count their nesting depth (balanced enter/leave, so the',
            '    // counter stays a constant during symbolic execution); level 3 stands for every depth >= 3',
            '    pub static mut DEPTH: u32 = 0;',
            '    pub static mut L0K: u32 = u32::MAX; pub static mut L1K: u32 = u32::MAX; pub static mut L2K: u32 = u32::MAX; pub static mut L3K: u32 = u32::MAX;',
            '    pub static mut L0B: u64 = u64::MAX; pub static mut L1B: u64 = u64::MAX; pub static mut L2B: u64 = u64::MAX; pub static mut L3B: u64 = u64::MAX;',
            '    /// instruction kinds and binary operators that may occur at nesting depth d (0 = the tree handed to exec/recreate)',
            '    pub fn allow_at(d: u32, kinds: u32, binops: u64) { unsafe { match d { 0 => { L0K = kinds; L0B = binops; } 1 => { L1K = kinds; L1B = binops; } 2 => { L2K = kinds; L2B = binops; } _ => { L3K = kinds; L3B = binops; } } } }',
            '    #[inline(always)] fn level_kinds(d: u32) -> u32 { unsafe { match d { 0 => L0K, 1 => L1K, 2 => L2K, _ => L3K } } }',
            '    #[inline(always)] fn level_binops(d: u32) -> u64 { unsafe { match d { 0 => L0B, 1 => L1B, 2 => L2B, _ => L3B } } }',
            '    #[inline(always)] pub fn enter() { unsafe { DEPTH += 1; } }',
            '    #[inline(always)] pub fn leave() { unsafe { DEPTH -= 1; } }',
            '    #[inline(always)] pub fn gate_of<T: VerifKind>(_: &T) { if unsafe { ALLOWED } & level_kinds(unsafe { DEPTH }) & (1 << T::K) == 0 { panic!("instruction kind outside the set declared by the harness") } }',
            '}', '']
    n = 0
    for old, new in (('=> ins.exec(interpreter),', '=> { #[cfg(kani)] { verif_gate::gate_of(ins); verif_gate::enter(); } let r = ins.exec(interpreter); #[cfg(kani)] verif_gate::leave(); r },'),
                     ('=> ins.recreate(local_variables),', '=> { #[cfg(kani)] { verif_gate::gate_of(ins); verif_gate::enter(); } let r = ins.recreate(local_variables); #[cfg(kani)] verif_gate::leave(); r },'),
                     ('=> ins.return_type(),', '=> { #[cfg(kani)] { verif_gate::gate_of(ins); verif_gate::enter(); } let r = ins.return_type(); #[cfg(kani)] verif_gate::leave(); r },')):
        if old in s:
            s = s.replace(old, new)
            n += 1
    if n == 0:
        return []
    # operator gating: inside the exec dispatch of BinOperation / UnaryOperation every single-operator
    # arm `BinOperator::X => expr,` becomes `BinOperator::X => { gate_binop(BinOperator::X); expr },`.
    # A garbage (unresolved) operator would otherwise drive CBMC into the iterator operators, whose
    # lazy_static initialisers run the pest parser.
    gen[-2:-2] = [
        '    pub static mut ALLOWED_BINOPS: u64 = u64::MAX;',
        '    pub static mut ALLOWED_UNOPS: u32 = u32::MAX;',
        '    pub fn allow_binops(m: u64) { unsafe { ALLOWED_BINOPS = m; } }',
        '    pub fn allow_unops(m: u32) { unsafe { ALLOWED_UNOPS = m; } }',
        '    pub const fn b(op: crate::BinOperator) -> u64 { 1u64 << (op as u8) }',
        '    pub const fn u(op: crate::unary_operator::UnaryOperator) -> u32 { 1u32 << (op as u8) }',
        '    /// every operator except the iterator operators and calls (which run parsed SimpleSL code)',
        '    pub fn scalar_ops_only() { unsafe {',
        '        ALLOWED_BINOPS = !(b(crate::BinOperator::Filter) | b(crate::BinOperator::Map) | b(crate::BinOperator::Partition) | b(crate::BinOperator::FunctionCall));',
        '        ALLOWED_UNOPS = u(crate::unary_operator::UnaryOperator::Not) | u(crate::unary_operator::UnaryOperator::UnaryMinus) | u(crate::unary_operator::UnaryOperator::Return) | u(crate::unary_operator::UnaryOperator::Indirection);',
        '    } }',
        '    #[inline(always)] pub fn gate_binop(op: crate::BinOperator) { if unsafe { ALLOWED_BINOPS } & level_binops(unsafe { DEPTH }.saturating_sub(1)) & b(op) == 0 { panic!("binary operator outside the set declared by the harness") } }',
        '    #[inline(always)] pub fn gate_unop(op: crate::unary_operator::UnaryOperator) { if unsafe { ALLOWED_UNOPS } & u(op) == 0 { panic!("unary operator outside the set declared by the harness") } }',
    ]
    f.write_text(s + '\n'.join(gen))
    for rel, enum, gate in (('src/instruction/bin_op.rs', 'BinOperator', 'gate_binop'), ('src/instruction/unary_operation.rs', 'UnaryOperator', 'gate_unop')):
        g = root / rel
        if not g.exists():
            continue
        t = g.read_text()
        # the run-time dispatch and (binary operators) the folding dispatch of `recreate`
        for hdr in (r'impl Exec for \w+ \{.*?\n\}\n', r'impl Recreate for BinOperation \{.*?\n\}\n'):
            m2 = re.search(hdr, t, re.S)
            if not m2:
                continue
            blk = m2.group(0)
            blk2 = re.sub(r'^(\s+)(' + enum + r'::(\w+)) => (?!\{)([^\n]*),$',
                          lambda mm: f"{mm.group(1)}{mm.group(2)} => {{ #[cfg(kani)] crate::instruction::verif_gate::{gate}({mm.group(2)}); {mm.group(4)} }},",
                          blk, flags=re.M)
            if enum == 'BinOperator':
                for nm, fn in (('And', 'and'), ('Or', 'or')):
                    for old in (f'            return {fn}::exec(lhs, &self.rhs, interpreter);',
                                f'            return {fn}::recreate(lhs, &self.rhs, local_variables);'):
                        blk2 = blk2.replace(old, f'            #[cfg(kani)] crate::instruction::verif_gate::{gate}({enum}::{nm});\n' + old)
            t = t.replace(blk, blk2)
        g.write_text(t)
    return [v[0] for v in variants]

def apply_value_gating(root: pathlib.Path):
    """Same idea for `Variable::as_type` (the recursive tag computation every array construction runs
    on its elements): an element selected through a symbolic index has an unresolved tag, so CBMC would
    walk the Function / Array / Mut / Tuple / Struct arms on garbage.  A harness may declare the compound
    value kinds that occur; arms of undeclared kinds panic (=> harness FAILS if really reached)."""
    f = root / 'src/variable.rs'
    s = f.read_text()
    reps = (
        ('Variable::Function(var) | Variable::Array(var) | Variable::Mut(var) => var.as_type(),',
         'Variable::Function(var) | Variable::Array(var) | Variable::Mut(var) => { #[cfg(kani)] verif_valgate::gate_val_of(var); var.as_type() },'),
        ('            Variable::Tuple(elements) => {\n                let types = elements.iter().map(Variable::as_type).collect();',
         '            Variable::Tuple(elements) => {\n                #[cfg(kani)] verif_valgate::gate_val(verif_valgate::V_TUPLE);\n                let types = elements.iter().map(Variable::as_type).collect();'),
        ('            Variable::Struct(vm) => {\n                let tm: HashMap<Arc<str>, Type> = vm.iter()',
         '            Variable::Struct(vm) => {\n                #[cfg(kani)] verif_valgate::gate_val(verif_valgate::V_STRUCT);\n                let tm: HashMap<Arc<str>, Type> = vm.iter()'),
    )
    n = 0
    for old, new in reps:
        if old in s:
            s = s.replace(old, new, 1)
            n += 1
    if n == 0:
        return 0
    s += '''
#[cfg(kani)]
pub mod verif_valgate {
    use super::*;
    pub const V_FUNCTION: u32 = 0;
    pub const V_ARRAY: u32 = 1;
    pub const V_MUT: u32 = 2;
    pub const V_TUPLE: u32 = 3;
    pub const V_STRUCT: u32 = 4;
    pub trait ValKind { const K: u32; }
    impl ValKind for Arc<Function> { const K: u32 = V_FUNCTION; }
    impl ValKind for Arc<Array> { const K: u32 = V_ARRAY; }
    impl ValKind for Arc<Mut> { const K: u32 = V_MUT; }
    pub static mut ALLOWED_VALS: u32 = u32::MAX;
    /// mask = OR of (1 << V_x): the compound value kinds whose type may have to be computed
    pub fn allow_vals(m: u32) { unsafe { ALLOWED_VALS = m; } }
    #[inline(always)] pub fn gate_val(k: u32) { if unsafe { ALLOWED_VALS } & (1 << k) == 0 { panic!("value kind outside the set declared by the harness") } }
    #[inline(always)] pub fn gate_val_of<T: ValKind>(_: &T) { gate_val(T::K) }
    pub const V_STRING: u32 = 5;
    /// a function value whose body is native code (Body::Native): the call goes through a function pointer
    /// stored in a heap object, which CBMC explores for every native of the crate unless it is declared absent
    pub const V_NATIVE: u32 = 6;
    #[inline(always)] pub fn gate_eq(v: &Variable) {
        match v {
            Variable::Function(_) => gate_val(V_FUNCTION),
            Variable::Array(_) => gate_val(V_ARRAY),
            Variable::Mut(_) => gate_val(V_MUT),
            Variable::Tuple(_) => gate_val(V_TUPLE),
            Variable::Struct(_) => gate_val(V_STRUCT),
            Variable::String(_) => gate_val(V_STRING),
            _ => (),
        }
    }
    pub fn rebuild(v: &Variable) -> Variable {
        match v {
            Variable::Bool(x) => Variable::Bool(*x),
            Variable::Int(x) => Variable::Int(*x),
            Variable::Float(x) => Variable::Float(*x),
            Variable::Void => Variable::Void,
            Variable::String(x) => { gate_val(V_STRING); Variable::String(x.clone()) }
            Variable::Function(x) => { gate_val(V_FUNCTION); Variable::Function(x.clone()) }
            Variable::Array(x) => { gate_val(V_ARRAY); Variable::Array(x.clone()) }
            Variable::Mut(x) => { gate_val(V_MUT); Variable::Mut(x.clone()) }
            Variable::Tuple(x) => { gate_val(V_TUPLE); Variable::Tuple(x.clone()) }
            Variable::Struct(x) => { gate_val(V_STRUCT); Variable::Struct(x.clone()) }
        }
    }
    pub static mut STUB_ELEMENT_TYPE: bool = false;
    pub fn stub_element_type(on: bool) { unsafe { STUB_ELEMENT_TYPE = on; } }
    pub fn element_type_stubbed() -> bool { unsafe { STUB_ELEMENT_TYPE } }
}
'''
    f.write_text(s)
    # `Function::exec`: the native arm (call through a stored function pointer) is gated like a value kind
    g = root / 'src/function.rs'
    if g.exists():
        t = g.read_text()
        oldn = '            Body::Native(body) => return (body)(interpreter),\n'
        if oldn in t:
            g.write_text(t.replace(oldn, '            Body::Native(body) => { #[cfg(kani)] crate::variable::verif_valgate::gate_val(crate::variable::verif_valgate::V_NATIVE); return (body)(interpreter) }\n', 1))
    # optional stub of the element-type computation of `Array::from` (a fold of Type::concat over
    # as_type of every element): only harnesses that say so (C09 slicing, whose subject is which
    # elements are selected) switch it on; the stored element type then is `any`.
    g = root / 'src/variable/array.rs'
    if g.exists():
        t = g.read_text()
        old = '        let elements = value.into();\n        let element_type = elements'
        if old in t:
            t = t.replace(old, '        let elements = value.into();\n        #[cfg(kani)]\n        if crate::variable::verif_valgate::element_type_stubbed() {\n            return Array { element_type: Type::Any, elements };\n        }\n        let element_type = elements', 1)
            g.write_text(t)
        # `Array::concat` is the only expensive arm of the `+` kernel; a cell content read back from the
        # heap has an unresolved kind, so `+=` on an int cell would otherwise explore it on garbage
        t = g.read_text()
        old = '    pub fn concat(array1: Arc<Self>, array2: Arc<Self>) -> Arc<Self> {\n'
        if old in t:
            g.write_text(t.replace(old, old + '        #[cfg(kani)]\n        crate::variable::verif_valgate::gate_val(crate::variable::verif_valgate::V_ARRAY);\n', 1))
    return n


def apply_seq_model(root: pathlib.Path):
    """`Interpreter::exec` and `recreate_instructions` evaluate a slice of instructions with
    `iter().map(..).collect::<Result<Arc<[_]>, _>>()`.  CBMC does not get through that adaptor chain
    (GenericShunt + Vec::from_iter + realloc over a heap slice: > 600 s for two statements).  In the
    scratch copy, and only if the function body is textually the pinned one, it is replaced under
    cfg(kani) by the plain loop it abbreviates: evaluate left to right, stop at the first Err.
    A tree in which these functions were changed keeps its own code (and is judged on it, slowly)."""
    done = []
    f = root / 'src/interpreter.rs'
    if f.exists():
        s = f.read_text()
        old = ('        instructions\n            .iter()\n            .map(|instruction| instruction.exec(self))\n            .collect()\n')
        new = ('        if cfg!(kani) {\n            let mut out = Vec::with_capacity(4);\n            let mut i = 0;\n'
               '            while i < instructions.len() {\n                out.push(instructions[i].exec(self)?);\n                i += 1;\n            }\n'
               '            return Ok(Arc::from(out));\n        }\n' + old)
        if s.count(old) == 1:
            f.write_text(s.replace(old, new))
            done.append('Interpreter::exec')
    f = root / 'src/instruction.rs'
    if f.exists():
        s = f.read_text()
        old = ('    instructions\n        .iter()\n        .map(|iws| iws.recreate(local_variables))\n        .collect()\n')
        new = ('    if cfg!(kani) {\n        let mut out = Vec::with_capacity(4);\n        let mut i = 0;\n'
               '        while i < instructions.len() {\n            out.push(instructions[i].recreate(local_variables)?);\n            i += 1;\n        }\n'
               '        return Ok(Arc::from(out));\n    }\n' + old)
        if s.count(old) == 1:
            f.write_text(s.replace(old, new))
            done.append('recreate_instructions')
    return done


PARSER_ENTRY_POINTS = (
    ('src/code.rs', '    pub fn parse(interpreter: &Interpreter, script: &str) -> Result<Self, Error> {\n'),
    ('src/instruction/local_variable.rs', '    pub(crate) fn parse_input(&mut self, input: &str) -> Result<Arc<[InstructionWithStr]>, Error> {\n'),
    ('src/variable/type.rs', '    fn from_str(s: &str) -> Result<Self, Self::Err> {\n'),
    ('src/variable.rs', '    fn from_str(s: &str) -> Result<Self, Error> {\n'),
    ('src/variable.rs', 'pub fn is_correct_variable_name(name: &str) -> bool {\n'),
    # the standard library object (every native wrapper) is only ever handed to the parser by the crate itself
    ('src/interpreter.rs', '    pub fn with_stdlib() -> Self {\n'),
)

def apply_parser_cut(root: pathlib.Path):
    """CBMC cannot execute the pest parser (DESIGN section 0).  Every harness that reaches
    `Instruction::exec` nevertheless had the whole front end in its goto binary (the iterator operators'
    `lazy_static`s call `Code::parse`), which is most of the 110 MB / ~60 s of serial codegen per harness.
    In the scratch copy the five functions that call `SimpleSLParser::parse` get a `#[cfg(kani)]` twin that
    panics ("text cannot be parsed under CBMC"); the original is kept under `#[cfg(not(kani))]`.  Sound: a
    path that really needs the parser now FAILS its harness instead of never finishing."""
    done = []
    for rel, sig in PARSER_ENTRY_POINTS:
        f = root / rel
        if not f.exists():
            continue
        s = f.read_text()
        if s.count(sig) != 1:
            continue
        ind = sig[:len(sig) - len(sig.lstrip())]
        twin = (ind + '#[cfg(kani)]\n' + ind + '#[allow(unused_variables)]\n' + sig +
                ind + '    panic!("the pest parser is outside the reach of CBMC: a path that parses text cannot be judged")\n' + ind + '}\n' +
                ind + '#[cfg(not(kani))]\n')
        f.write_text(s.replace(sig, twin + sig))
        done.append(rel + ':' + sig.strip().split('(')[0].split()[-1])
    return done

def apply_layout(root: pathlib.Path):
    open_fields(root)
    if __import__('os').environ.get('VERIF_NO_PARSER_CUT') != '1':
        apply_parser_cut(root)
    apply_seq_model(root)
    apply_gating(root)
    apply_value_gating(root)
    done = []
    for rel, names in REPR_ENUMS.items():
        f = root / rel
        if not f.exists():
            continue  # refactored away: nothing to do (layout help only, not needed for soundness)
        s = f.read_text()
        for n in names:
            pat = re.compile(r'^(pub(?:\([a-z]+\))? enum ' + n + r'\b)', re.M)
            if pat.search(s):
                s = pat.sub(r'#[repr(u8)]\n\1', s, count=1)
                done.append(n)
        f.write_text(s)
    return done

HDR = re.compile(r'^//@\s*(\w+)\s*:\s*(.*)$', re.M)

def harness_meta(path: pathlib.Path):
    txt = path.read_text()
    meta = {k: v.strip() for k, v in HDR.findall(txt.split('\n\n', 1)[0])}
    return meta, txt

def inject_harness(root: pathlib.Path, harness_file: pathlib.Path, body: str = None):
    """Place harness_file as a child module of the module named in its `//@ inject:` header."""
    meta, txt = harness_meta(harness_file)
    if body is not None:
        txt = body
    target = meta.get('inject')
    modname = meta.get('modname') or harness_file.stem
    if not target:
        raise PatchError(f'{harness_file}: no //@ inject: header')
    tf = root / target
    if not tf.exists():
        raise PatchError(f'anchor module {target} not found in the tree')
    if tf.name in ('lib.rs', 'mod.rs'):
        dest = tf.parent / f'{modname}.rs'
    else:
        d = tf.parent / tf.stem
        d.mkdir(exist_ok=True)
        dest = d / f'{modname}.rs'
    dest.write_text(txt)
    with tf.open('a') as fh:
        fh.write(f'\n#[cfg(kani)]\nmod {modname};\n')
    return dest
