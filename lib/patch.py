#!/usr/bin/env python3
"""Patch a *scratch copy* of /repo for Kani: std-model substitution + harness injection.

Nothing here ever touches /repo.  Every rewrite is anchored on the crate's own `use` lines; if an
anchor that must exist is missing the patcher raises PatchError and the check reports
"inconclusive" (exit 2) instead of passing or raising an alarm.
"""
import re, pathlib, shutil

class PatchError(Exception):
    pass

MODEL_PATHS = {
    'std::sync::Arc': 'Arc',
    'std::collections::HashMap': 'HashMap',
    'std::collections::HashSet': 'HashSet',
    'std::collections::hash_set::Iter': 'Iter',
}

def _split_top(s):
    out, depth, cur = [], 0, ''
    for ch in s:
        if ch == '{':
            depth += 1
        if ch == '}':
            depth -= 1
        if ch == ',' and depth == 0:
            out.append(cur)
            cur = ''
        else:
            cur += ch
    if cur.strip():
        out.append(cur)
    return [x.strip() for x in out if x.strip()]

def _flatten(prefix, item):
    m = re.match(r'^([\w:#]+?)::\{(.*)\}$', item, re.S)
    if m:
        res = []
        for sub in _split_top(m.group(2)):
            res += _flatten(prefix + m.group(1) + '::', sub)
        return res
    return [prefix + item]

def _rewrite_use(m):
    vis, body = m.group(1) or '', m.group(2)
    paths = _flatten('', body.strip())
    keep, model = [], []
    for p in paths:
        if p in MODEL_PATHS:
            model.append(MODEL_PATHS[p])
        else:
            keep.append(p)
    if not model:
        return m.group(0)
    out = ''.join(f'{vis}use {p};\n' for p in keep)
    out += f'{vis}use crate::verif_model::{{{", ".join(model)}}};'
    return out

def apply_models(root: pathlib.Path, model_src: pathlib.Path):
    """Replace std Arc/HashMap/HashSet by crate::verif_model in the scratch copy."""
    touched = []
    for f in sorted(list(root.glob('src/**/*.rs')) + list(root.glob('macros/src/*.rs'))):
        if f.name.startswith('verif_'):
            continue
        s = f.read_text()
        o = s
        s = re.sub(r'^([ \t]*(?:pub(?:\([a-z]+\))? )?)use (std::[^;]*);', _rewrite_use, s, flags=re.M)
        inmac = 'macros' in f.relative_to(root).parts
        base = 'simplesl::verif_model::' if inmac else 'crate::verif_model::'
        s = s.replace('std::sync::Arc', base + 'Arc')
        s = s.replace('std::collections::HashMap', base + 'HashMap')
        s = s.replace('std::collections::HashSet', base + 'HashSet')
        if s != o:
            f.write_text(s)
            touched.append(str(f.relative_to(root)))
    lib = root / 'src/lib.rs'
    if not lib.exists():
        raise PatchError('src/lib.rs missing')
    t = lib.read_text()
    shutil.copy(model_src, root / 'src/verif_model.rs')
    feats = "#![feature(arbitrary_self_types, coerce_unsized, unsize)]\n#![recursion_limit = \"512\"]\n#![allow(internal_features, unused_imports, dead_code)]\n"
    lib.write_text(feats + 'pub mod verif_model;\n' + t)
    # sanity: no std Arc/HashMap/HashSet import may survive in src/
    for f in root.glob('src/**/*.rs'):
        if f.name.startswith('verif_'):
            continue
        txt = f.read_text()
        for bad in ('std::sync::Arc', 'std::collections::HashMap', 'std::collections::HashSet'):
            if bad in txt:
                raise PatchError(f'{f}: {bad} survived model substitution')
        for m in re.finditer(r'use std::[^;]*;', txt, flags=re.S):
            if re.search(r'\b(Arc|HashMap|HashSet)\b', m.group(0)):
                raise PatchError(f'{f}: unrewritten std import {m.group(0)!r}')
    return touched

HDR = re.compile(r'^//@\s*(\w+)\s*:\s*(.*)$', re.M)

def harness_meta(path: pathlib.Path):
    txt = path.read_text()
    meta = {k: v.strip() for k, v in HDR.findall(txt.split('\n\n', 1)[0])}
    return meta, txt

def inject_harness(root: pathlib.Path, harness_file: pathlib.Path, body: str = None):
    """Place harness_file as a child module of the module named in its `//@ inject:` header."""
    meta, txt = harness_meta(harness_file)
    if body is not None:
        txt = body
    target = meta.get('inject')
    modname = meta.get('modname') or harness_file.stem
    if not target:
        raise PatchError(f'{harness_file}: no //@ inject: header')
    tf = root / target
    if not tf.exists():
        raise PatchError(f'anchor module {target} not found in the tree')
    if tf.name in ('lib.rs', 'mod.rs'):
        dest = tf.parent / f'{modname}.rs'
    else:
        d = tf.parent / tf.stem
        d.mkdir(exist_ok=True)
        dest = d / f'{modname}.rs'
    dest.write_text(txt)
    with tf.open('a') as fh:
        fh.write(f'\n#[cfg(kani)]\nmod {modname};\n')
    return dest
