"""Counterexample handling: known-findings lookup, concrete values from Kani, native replay.

Replay levels
  L1  Kani's concrete playback: the solver's assignment is turned into an ordinary #[test] that calls
      the same harness natively (rustc, no CBMC) inside the scratch copy; the harness executes the real
      functions of the crate on the concrete inputs.  (Kernel-tagging stubs are not active natively; the
      table harnesses detect that and compare against the real kernels instead.)
  L2  where a scenario generator exists (lib/scenarios.py): SimpleSL program text / public-API calls run
      against an *unpatched* copy of the tree by /verif/replay (no models at all).
A counterexample is reported as VIOLATION only if it reproduces at L1 (and is not contradicted at L2);
otherwise the check ends inconclusive (exit 2) and the pair is logged for fixing the machinery.
"""
import json, os, pathlib, re, subprocess, time
import engine

VERIF = engine.VERIF


def _match_known(known, prop, harness, descs):
    for k in known.get('open', []):
        if k['property'] != prop:
            continue
        if k['harness'] not in harness:
            continue
        pat = k.get('check_contains')
        if pat and not any(pat in d for d in descs):
            continue
        return k
    return None


def concrete_values(sc, harness, timeout_s):
    """Re-run one harness with concrete playback printing; returns (test_code, values) or (None, None)."""
    cmd = ['cargo', 'kani', '-Z', 'stubbing', '-Z', 'unstable-options', '-Z', 'concrete-playback',
           '--concrete-playback=print', '--harness-timeout', f'{int(timeout_s)}s',
           '--target-dir', str(sc.target), '--harness', harness, '--exact',
           '--cbmc-args', '--max-field-sensitivity-array-size', str(engine.FIELD_SENS)]
    p = subprocess.run(cmd, cwd=sc.tree, env=engine.kani_env(), text=True, capture_output=True)
    out = p.stdout + p.stderr
    m = re.search(r'```\n(.*?)```', out, re.S)
    if not m:
        return None, None, out[-3000:]
    code = m.group(1)
    # keep only the test item: Kani copies the (possibly multi-line) assertion message into a `///`
    # comment, which breaks the syntax when the message spans several lines
    i = code.find('#[test]')
    if i >= 0:
        code = code[i:]
    vals = []
    for vm in re.finditer(r'vec!\[([0-9, ]*)\]', code):
        body = vm.group(1).strip()
        if body == '' or re.fullmatch(r'[0-9, ]+', body):
            vals.append([int(x) for x in body.split(',') if x.strip() != ''])
    return code, vals, ''


def playback(sc, harness, code):
    """Append the generated test next to the harness and run it natively. True = the harness fails natively."""
    mod = harness.split('::')[-2]
    files = list(sc.tree.glob(f'src/**/{mod}.rs'))
    if not files:
        return None, f'harness module file {mod}.rs not found'
    f = files[0]
    tm = re.search(r'fn (kani_concrete_playback_\w+)', code)
    if not tm:
        return None, 'no test function in playback output'
    orig = f.read_text()
    with f.open('a') as fh:
        fh.write('\n' + code + '\n')
    cmd = ['cargo', 'kani', 'playback', '-Z', 'concrete-playback', '--', tm.group(1)]
    try:
        p = subprocess.run(cmd, cwd=sc.tree, env=engine.kani_env(), text=True, capture_output=True)
    finally:
        f.write_text(orig)  # later harnesses are re-built from the same tree
    out = p.stdout + p.stderr
    if re.search(r'test result: FAILED|panicked at', out):
        return True, out[-1500:]
    if re.search(r'test result: ok\. 1 passed', out):
        return False, out[-800:]
    return None, out[-1500:]


def handle_failure(prop, harness, res, sc, cfg, known, seed):
    descs = [f"{f['desc']}" for f in res['failed']]
    what = '; '.join(f"{f['desc']} @ {f['loc']}" for f in res['failed'][:3])
    k = _match_known(known, prop, harness, descs)
    if k:
        return {'kind': 'known', 'harness': harness, 'what': f"{k['id']}: {k['what']} [{harness.split('::')[-1]}]"}
    short = harness.split('::')[-1]
    rp = VERIF / 'replays' / f'{prop}-{short}.json'
    rp.parent.mkdir(exist_ok=True)
    rec = {'property': prop, 'harness': harness, 'failed_checks': res['failed'][:10]}
    code, vals, err = concrete_values(sc, harness, cfg.get('timeout_replay', 900))
    if code is None:
        rec['replay'] = 'no concrete playback test could be generated: ' + err[-500:]
        rp.write_text(json.dumps(rec, indent=1))
        return {'kind': 'irreproducible', 'harness': harness, 'why': 'no concrete values from Kani', 'replay_path': str(rp)}
    rec['concrete_values'] = vals
    rec['playback_test'] = code
    ok, log = playback(sc, harness, code)
    rec['playback_reproduced'] = ok
    rec['playback_log_tail'] = log
    rec['how_to_replay'] = ('bin/check %s --only %s --keep   then, in the kept scratch tree, append playback_test to the harness '
                            'module and run `cargo kani playback -Z concrete-playback -- <test>`' % (prop, short))
    try:
        import scenarios
        l2 = scenarios.level2(prop, harness, res, vals, sc)
    except Exception as e:  # scenario generators are optional
        l2 = {'available': False, 'error': repr(e)}
    rec['level2'] = l2
    rp.write_text(json.dumps(rec, indent=1))
    if ok and not (l2.get('available') and l2.get('reproduced') is False and l2.get('authoritative')):
        return {'kind': 'violation', 'harness': harness, 'replay_path': str(rp), 'what': what}
    return {'kind': 'irreproducible', 'harness': harness, 'replay_path': str(rp),
            'why': 'native playback did not fail' if ok is False else ('playback could not run: ' + log[-300:])}
