"""Counterexample handling: concrete values from Kani, native replay, known-findings lookup."""
import json, pathlib, re, subprocess, os, time
import engine

VERIF = engine.VERIF


def handle_failure(prop, harness, res, sc, cfg, known, seed):
    what = '; '.join(f"{f['desc']} @ {f['loc']}" for f in res['failed'][:3])
    for k in known.get('open', []):
        if k['property'] == prop and k['harness'] in harness:
            return {'kind': 'known', 'harness': harness, 'what': f"{k['id']}: {k['what']} [{harness}]"}
    rp = VERIF / 'replays' / f'{prop}-{harness.split("::")[-1]}.json'
    rp.parent.mkdir(exist_ok=True)
    rp.write_text(json.dumps({'property': prop, 'harness': harness, 'failed_checks': res['failed'][:10]}, indent=1))
    return {'kind': 'violation', 'harness': harness, 'replay_path': str(rp), 'what': what}
