#!/usr/bin/env python3
"""Engine shared by all checks: scratch copy -> patch -> cargo kani -> verdicts -> evidence.

Verdict discipline (DESIGN.md §1):
  SUCCESSFUL (incl. unwinding assertions, all cover!s satisfied)  -> discharged
  FAILED with a failing *property*                                 -> counterexample -> native replay
  timeout / OOM / CBMC error / unwinding-assertion failure / unsatisfied cover -> inconclusive (exit 2)
"""
import threading, json, os, pathlib, re, shutil, signal, subprocess, sys, time

VERIF = pathlib.Path(__file__).resolve().parent.parent
REPO = pathlib.Path(os.environ.get('VERIF_REPO', '/repo'))
SCRATCH_ROOT = pathlib.Path(os.environ.get('VERIF_SCRATCH', '/var/tmp/verif-scratch'))
CACHE = VERIF / '.cache'
# CBMC keeps heap objects (byte arrays) field-sensitive only up to this many bytes; the interpreter's
# Instruction / BinOperation objects are larger than the default 64, which loses every enum tag stored in them
FIELD_SENS = int(os.environ.get('VERIF_FIELD_SENS', '1024'))
sys.path.insert(0, str(VERIF / 'lib'))
import patch  # noqa: E402


def log(*a):
    print(*a, flush=True)


def sh(cmd, **kw):
    return subprocess.run(cmd, shell=isinstance(cmd, str), text=True, capture_output=True, **kw)


class Scratch:
    """A patched copy of /repo's *current working tree* outside /repo and /verif; removed on exit."""

    def __init__(self, tag, keep=False):
        self.dir = SCRATCH_ROOT / f'{tag}-{os.getpid()}'
        self.tree = self.dir / 'tree'
        self.target = self.dir / 'target'
        self.keep = keep

    def __enter__(self):
        if self.dir.exists():
            shutil.rmtree(self.dir)
        self.dir.mkdir(parents=True)
        r = sh(['rsync', '-a', '--exclude', 'target', '--exclude', '.git', f'{REPO}/', f'{self.tree}/'])
        if r.returncode != 0:
            raise RuntimeError('rsync failed: ' + r.stderr)
        seed = CACHE / 'kani-target'
        if seed.exists():
            # pre-built registry dependencies (setup_cmd); workspace crates are rebuilt from the copy
            sh(['cp', '-a', '--reflink=auto', str(seed), str(self.target)])
        return self

    def __exit__(self, *exc):
        if not self.keep:
            shutil.rmtree(self.dir, ignore_errors=True)
            try:
                SCRATCH_ROOT.rmdir()
            except OSError:
                pass
        return False


def prepare_tree(tree: pathlib.Path, harness_files, keep=None):
    touched = patch.apply_models(tree, VERIF / 'harness/verif_model.rs')
    if os.environ.get('VERIF_NO_REPR') != '1':
        patch.apply_layout(tree)
    (tree / 'src/verif_common.rs').write_text((VERIF / 'harness/verif_common.rs').read_text())
    lib = tree / 'src/lib.rs'
    lib.write_text(lib.read_text() + '\n#[cfg(kani)]\npub mod verif_common;\n')
    for hf in harness_files:
        dest = patch.inject_harness(tree, hf)
        if keep:
            # development aid: strip `#[kani::proof]` from harnesses not asked for (they stay plain fns)
            subs = [k for k in keep.split(',') if k]
            txt = dest.read_text()
            def strip(m):
                return m.group(0) if any(k in m.group(2) for k in subs) else '#[allow(dead_code)] pub fn ' + m.group(2)
            txt = re.sub(r'(#\[kani::proof\](?:\s*#\[[^\]]*\])*\s*pub fn )(\w+)', strip, txt)
            dest.write_text(txt)
    # cargo feature that switches the thorough-only harnesses on (`#[cfg(feature = "verif_thorough")]`)
    ct = tree / 'Cargo.toml'
    t = ct.read_text()
    if 'verif_thorough' not in t:
        if re.search(r'^\[features\]', t, re.M):
            t = re.sub(r'^\[features\]\n', '[features]\nverif_thorough = []\nverif_experimental = []\n', t, count=1, flags=re.M)
        else:
            t += '\n[features]\nverif_thorough = []\nverif_experimental = []\n'
        ct.write_text(t)
    return touched


def list_harness_files(prop, tier, extra=()):
    out = []
    d = VERIF / 'harness' / prop
    for f in sorted(d.glob('*.rs')) + [VERIF / 'harness' / e for e in extra]:
        meta, _ = patch.harness_meta(f)
        t = meta.get('tier', 'quick')
        if t == 'quick' or tier == 'thorough':
            out.append(f)
    return out


def kani_env():
    env = dict(os.environ)
    env['CARGO_NET_OFFLINE'] = 'true'
    env.pop('RUSTUP_TOOLCHAIN', None)
    env.pop('CARGO_TARGET_DIR', None)
    env.pop('RUSTFLAGS', None)
    return env


def run_kani(scratch: Scratch, harness_filters, jobs, timeout_s, extra=(), logfile=None, tier='quick'):
    """One cargo-kani invocation over all selected harnesses; per-harness output goes to
    <target>/result_output_dir/<harness>.  Returns (returncode, driver output, wall seconds)."""
    cmd = ['cargo', 'kani', '-Z', 'stubbing', '-Z', 'unstable-options',
           '--harness-timeout', f'{int(timeout_s)}s', '--target-dir', str(scratch.target),
           '-j', str(jobs), '--output-format', 'terse', '--output-into-files']
    for h in harness_filters:
        cmd += ['--harness', h]
    if tier == 'thorough':
        cmd += ['--features', 'verif_thorough']
    cmd += list(extra)
    cmd += ['--cbmc-args', '--max-field-sensitivity-array-size', str(FIELD_SENS)]
    t0 = time.time()
    p = subprocess.Popen(cmd, cwd=scratch.tree, env=kani_env(), text=True,
                         stdout=subprocess.PIPE, stderr=subprocess.STDOUT, start_new_session=True)
    # memory watchdog: a runaway CBMC ends as "out of memory" = inconclusive for its own harness instead
    # of pushing the machine into the kernel's OOM killer (which picks any victim, e.g. a healthy run)
    mem_kb = int(os.environ.get('VERIF_MEM_GB', '14')) << 20
    stop = threading.Event()
    def _watch():
        while not stop.wait(5):
            try:
                ps = subprocess.run(['ps', '-eo', 'pid,sid,rss,comm'], text=True, capture_output=True).stdout
            except Exception:
                continue
            for ln in ps.splitlines()[1:]:
                f = ln.split(None, 3)
                if len(f) == 4 and f[1] == str(p.pid) and f[3].strip() == 'cbmc' and int(f[2]) > mem_kb:
                    try:
                        os.kill(int(f[0]), signal.SIGKILL)
                    except ProcessLookupError:
                        pass
    th = threading.Thread(target=_watch, daemon=True)
    th.start()
    try:
        out, _ = p.communicate()
    except BaseException:
        try:
            os.killpg(p.pid, signal.SIGKILL)
        except ProcessLookupError:
            pass
        raise
    stop.set()
    if logfile:
        pathlib.Path(logfile).write_text(out)
    return p.returncode, out, time.time() - t0


# CBMC's --nan-check (switched on by Kani) flags every float operation that *can* produce NaN.
# Producing NaN is IEEE-754 behaviour the property demands, not a failure: these checks are ignored.
IGNORED_CLASSES = re.compile(r'\.NaN\.\d+$')
CHECK_HDR = re.compile(r'^Check (\d+): (.*)$')
FUNC_LOC = re.compile(r'- Location: (\S+?):\d+(?::\d+)? in function (.*)$')


def parse_harness_output(path: pathlib.Path):
    """Parse Kani's regular per-harness output (streamed; files can be tens of MB)."""
    res = {'checks': 0, 'failed': [], 'covers': None, 'covers_sat': None, 'status': None,
           'time_s': None, 'repo_functions': set(), 'unwind_fail': False, 'raw_tail': '', 'ignored_failures': 0, 'cover_checks': [], 'unexpected': []}
    cur = None
    tail = []
    with path.open(errors='replace') as fh:
        for line in fh:
            line = line.rstrip('\n')
            tail.append(line)
            if len(tail) > 40:
                tail.pop(0)
            m = CHECK_HDR.match(line)
            if m:
                cur = {'name': m.group(2), 'status': None, 'desc': None, 'loc': None}
                res['checks'] += 1
                continue
            s = line.strip()
            if cur is not None:
                if s.startswith('- Status:'):
                    cur['status'] = s.split(':', 1)[1].strip()
                elif s.startswith('- Description:'):
                    cur['desc'] = s.split(':', 1)[1].strip().strip('"')
                elif s.startswith('- Location:'):
                    cur['loc'] = s.split(':', 1)[1].strip()
                    m2 = FUNC_LOC.search(s)
                    if m2 and (m2.group(1).startswith('src/') or m2.group(1).startswith('parser/')):
                        fn = m2.group(2)
                        if not fn.startswith('std::') and not fn.startswith('<std::') and 'verif_' not in fn:
                            res['repo_functions'].add(fn)
                    if '.cover.' in cur['name']:
                        res['cover_checks'].append((cur['desc'] or '', cur['status']))
                        if (cur['desc'] or '').startswith('UNEXPECTED') and cur['status'] == 'SATISFIED':
                            res['unexpected'].append(f"{cur['desc']} @ {cur['loc']}")
                    if cur['status'] == 'FAILURE' and IGNORED_CLASSES.search(cur['name']):
                        res['ignored_failures'] += 1
                    elif cur['status'] in ('FAILURE', 'UNDETERMINED') and '.cover.' not in cur['name']:
                        res['failed'].append(cur)
                        if 'unwinding assertion' in (cur['desc'] or ''):
                            res['unwind_fail'] = True
                    cur = None
            m = re.match(r'\s*\*\* (\d+) of (\d+) cover properties satisfied', line)
            if m:
                res['covers_sat'], res['covers'] = int(m.group(1)), int(m.group(2))
            m = re.match(r'VERIFICATION:- (\w+)', line)
            if m:
                res['status'] = m.group(1)
            m = re.match(r'Verification Time: ([\d.]+)s', line)
            if m:
                res['time_s'] = float(m.group(1))
    if res['cover_checks']:
        normal = [c for c in res['cover_checks'] if not c[0].startswith('UNEXPECTED')]
        res['covers'] = len(normal)
        res['covers_sat'] = sum(1 for c in normal if c[1] == 'SATISFIED')
    res['raw_tail'] = '\n'.join(tail[-25:])
    res['repo_functions'] = sorted(res['repo_functions'])
    return res


def classify(res):
    """-> 'pass' | 'fail' | 'inconclusive' with a reason."""
    if res is None:
        return 'inconclusive', 'no output produced (timeout / crash before CBMC finished)'
    st = res['status']
    if res.get('unexpected') and st in ('SUCCESSFUL', 'FAILED') and not [f for f in res['failed'] if f['status'] == 'FAILURE']:
        # `kani::cover!(.., "UNEXPECTED ...")` witnesses mark shapes the harness cannot judge (e.g. a new
        # kind of rewrite by the folding pass): neither a pass nor a violation
        return 'inconclusive', 'shape outside what the harness can judge: ' + '; '.join(res['unexpected'][:3])
    if st == 'SUCCESSFUL':
        if res['covers'] is not None and res['covers_sat'] != res['covers']:
            return 'inconclusive', f"vacuity: only {res['covers_sat']} of {res['covers']} cover! witnesses satisfiable"
        return 'pass', ''
    if st == 'FAILED':
        real = [f for f in res['failed'] if f['status'] == 'FAILURE' and 'unwinding assertion' not in (f['desc'] or '')]
        if res['unwind_fail'] and not real:
            return 'inconclusive', 'unwinding assertion failed (bound too small)'
        # a declared-shape gate that fires means the tree left the shape the harness declared (e.g. the
        # folding pass rewrote it in a new way): the harness cannot judge that run - not a violation
        gate = [f for f in real if 'outside the set declared by the harness' in (f['desc'] or '')]
        real = [f for f in real if f not in gate]
        if gate and not real:
            return 'inconclusive', 'instruction shape outside the harness declaration: ' + '; '.join(f"{f['desc']} @ {f['loc']}" for f in gate[:3])
        if real:
            return 'fail', '; '.join(f"{f['desc']} @ {f['loc']}" for f in real[:4])
        undet = [f for f in res['failed'] if f['status'] != 'FAILURE']
        if not res['failed'] and res['ignored_failures'] and res['time_s'] is not None:
            # the only failing checks were of an ignored class (NaN production)
            if res['covers'] is not None and res['covers_sat'] != res['covers']:
                return 'inconclusive', f"vacuity: only {res['covers_sat']} of {res['covers']} cover! witnesses satisfiable"
            return 'pass', ''

        return 'inconclusive', 'FAILED without a failing property (undetermined checks / CBMC error): ' + res['raw_tail'][-400:]
    return 'inconclusive', 'no verdict line (timeout, OOM or CBMC error): ' + res['raw_tail'][-400:]
