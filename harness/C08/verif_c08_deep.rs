//@ inject: src/instruction/bin_op.rs
//@ modname: verif_c08_deep
//@ property: C08
//@ tier: thorough

//! C08 kernels whose queries take minutes (multiplier / divider equivalences); thorough tier only.
use super::*;
use crate::verif_common::*;
use crate::verif_model::Arc;

/// symbolic full-width base, exponent 0..=2 (one product): exact
#[kani::proof]
#[kani::unwind(5)]
#[kani::stub(alloc::fmt::format, crate::verif_common::stub_format)]
pub fn k_pow_small_exp() {
    let b: i64 = kani::any();
    let mut e = 0i64;
    while e <= 2 {
        let r = pow::exec(Variable::Int(b), Variable::Int(e));
        let expect = match e {
            0 => 1,
            1 => b,
            _ => b.wrapping_mul(b),
        };
        assert!(matches!(r, Ok(Variable::Int(x)) if x == expect));
        e += 1;
    }
    kani::cover!(true);
}

/// exact division lemma for every dividend and a set of constant divisors
#[kani::proof]
#[kani::unwind(20)]
#[kani::stub(alloc::fmt::format, crate::verif_common::stub_format)]
pub fn k_divmod_const_divisors() {
    const DIVISORS: [i64; 14] = [1, -1, 2, -2, 3, -3, 7, 10, -10, 1 << 32, -(1 << 32), i64::MAX, i64::MIN, i64::MIN + 1];
    let mut k = 0;
    while k < DIVISORS.len() {
        let b = DIVISORS[k];
        let a: i64 = kani::any();
        let q = as_int(&divide::exec(Variable::Int(a), Variable::Int(b)).unwrap()).unwrap();
        let m = as_int(&modulo::exec(Variable::Int(a), Variable::Int(b)).unwrap()).unwrap();
        assert!(is_quotient(a, b, q));
        assert!(is_remainder(a, b, m, q));
        k += 1;
    }
    kani::cover!(true);
}

/// division lemma on the *returned* quotient and remainder, operands narrowed to 16 bits
/// (sign-extended into i64, plus the MIN / -1 corner separately above)
#[kani::proof]
#[kani::unwind(3)]
#[kani::stub(alloc::fmt::format, crate::verif_common::stub_format)]
pub fn k_divmod_lemma_narrow() {
    let (a, b): (i16, i16) = (kani::any(), kani::any());
    let (a, b) = (a as i64, b as i64);
    kani::assume(b != 0);
    let q = as_int(&divide::exec(Variable::Int(a), Variable::Int(b)).unwrap()).unwrap();
    let m = as_int(&modulo::exec(Variable::Int(a), Variable::Int(b)).unwrap()).unwrap();
    assert!(is_quotient(a, b, q));
    assert!(is_remainder(a, b, m, q));
    kani::cover!(a < 0 && b > 0 && m < 0);
}
