//@ inject: src/instruction/bin_op.rs
//@ modname: verif_c08_tables
//@ property: C08
//@ tier: quick

//! C08 table harnesses: the three execution paths select the documented kernel for every
//! operator.  The *operator itself is symbolic*; operands are full-width symbolic.
use super::*;
use crate::instruction::local_variable::LocalVariables;
use crate::instruction::prefix_op::{not, unary_minus};
use crate::instruction::unary_operation::UnaryOperation;
use crate::instruction::{Exec, ExecStop, Recreate};
use crate::unary_operator::UnaryOperator;
use crate::verif_common::*;
use crate::verif_model::Arc;

type R = Result<Variable, ExecError>;

/// the harness' own operator table (independent of BinOperation::exec / recreate)
fn kernel(op: BinOperator, a: Variable, b: Variable) -> R {
    Ok(match op {
        BinOperator::Add | BinOperator::AssignAdd => add::exec(a, b),
        BinOperator::Subtract | BinOperator::AssignSubtract => subtract::exec(a, b),
        BinOperator::Multiply | BinOperator::AssignMultiply => multiply::exec(a, b),
        BinOperator::Divide | BinOperator::AssignDivide => divide::exec(a, b)?,
        BinOperator::Modulo | BinOperator::AssignModulo => modulo::exec(a, b)?,
        BinOperator::Pow | BinOperator::AssignPow => pow::exec(a, b)?,
        BinOperator::LShift | BinOperator::AssignLShift => lshift::exec(a, b)?,
        BinOperator::RShift | BinOperator::AssignRShift => rshift::exec(a, b)?,
        BinOperator::BitwiseAnd | BinOperator::AssignBitwiseAnd => bitwise_and::exec(a, b),
        BinOperator::BitwiseOr | BinOperator::AssignBitwiseOr => bitwise_or::exec(a, b),
        BinOperator::Xor | BinOperator::AssignXor => xor::exec(a, b),
        BinOperator::Equal => equal::exec(a, b),
        BinOperator::NotEqual => not_equal::exec(a, b),
        BinOperator::Greater => greater::exec(a, b),
        BinOperator::GreaterOrEqual => greater_equal::exec(a, b),
        BinOperator::Lower => lower::exec(a, b),
        BinOperator::LowerOrEqual => lower_equal::exec(a, b),
        BinOperator::Assign => b,
        _ => unreachable!(),
    })
}

const INT_OPS: [BinOperator; 18] = [
    BinOperator::Add, BinOperator::Subtract, BinOperator::Multiply, BinOperator::Divide,
    BinOperator::Modulo, BinOperator::Pow, BinOperator::LShift, BinOperator::RShift,
    BinOperator::BitwiseAnd, BinOperator::BitwiseOr, BinOperator::Xor, BinOperator::Equal,
    BinOperator::NotEqual, BinOperator::Greater, BinOperator::GreaterOrEqual, BinOperator::Lower,
    BinOperator::LowerOrEqual, BinOperator::Assign,
];
const FLOAT_OPS: [BinOperator; 10] = [
    BinOperator::Add, BinOperator::Subtract, BinOperator::Multiply, BinOperator::Divide,
    BinOperator::Equal, BinOperator::NotEqual, BinOperator::Greater, BinOperator::GreaterOrEqual,
    BinOperator::Lower, BinOperator::LowerOrEqual,
];
const BOOL_OPS: [BinOperator; 5] = [
    BinOperator::BitwiseAnd, BinOperator::BitwiseOr, BinOperator::Xor, BinOperator::Equal, BinOperator::NotEqual,
];
const ASSIGN_INT_OPS: [BinOperator; 12] = [
    BinOperator::Assign, BinOperator::AssignAdd, BinOperator::AssignSubtract, BinOperator::AssignMultiply,
    BinOperator::AssignDivide, BinOperator::AssignModulo, BinOperator::AssignPow, BinOperator::AssignLShift,
    BinOperator::AssignRShift, BinOperator::AssignBitwiseAnd, BinOperator::AssignBitwiseOr, BinOperator::AssignXor,
];
const ASSIGN_FLOAT_OPS: [BinOperator; 5] = [
    BinOperator::Assign, BinOperator::AssignAdd, BinOperator::AssignSubtract, BinOperator::AssignMultiply, BinOperator::AssignDivide,
];
const ASSIGN_BOOL_OPS: [BinOperator; 4] = [
    BinOperator::Assign, BinOperator::AssignBitwiseAnd, BinOperator::AssignBitwiseOr, BinOperator::AssignXor,
];

/// Operators are enumerated *concretely* (a straight-line sequence of sections, one per operator,
/// each with its own fresh symbolic operands): a symbolic operator would make CBMC explore every
/// arm of BinOperation::exec, including the iterator operators whose lazy_static initialisers run
/// the pest parser.
macro_rules! for_each_op {
    ($ops:expr, |$op:ident| $body:block) => {{
        let mut k = 0;
        while k < $ops.len() {
            let $op: BinOperator = $ops[k];
            $body
            k += 1;
        }
    }};
}

/// same scalar (bit-exact for floats so that NaN results agree)
fn same_scalar(x: &Variable, y: &Variable) -> bool {
    match (x, y) {
        (Variable::Int(a), Variable::Int(b)) => a == b,
        (Variable::Bool(a), Variable::Bool(b)) => a == b,
        (Variable::Float(a), Variable::Float(b)) => same_f64(*a, *b),
        _ => false,
    }
}
fn same_err(x: &ExecError, y: &ExecError) -> bool {
    matches!(
        (x, y),
        (ExecError::ZeroDivision, ExecError::ZeroDivision)
            | (ExecError::ZeroModulo, ExecError::ZeroModulo)
            | (ExecError::OverflowShift, ExecError::OverflowShift)
            | (ExecError::NegativeExponent, ExecError::NegativeExponent)
            | (ExecError::IndexOutOfBounds, ExecError::IndexOutOfBounds)
            | (ExecError::NegativeLength, ExecError::NegativeLength)
    )
}
fn same_result(x: &R, y: &R) -> bool {
    match (x, y) {
        (Ok(a), Ok(b)) => same_scalar(a, b),
        (Err(a), Err(b)) => same_err(a, b),
        _ => false,
    }
}

fn unstop(r: Result<Variable, ExecStop>) -> R {
    match r {
        Ok(v) => Ok(v),
        Err(ExecStop::Error(e)) => Err(e),
        Err(_) => panic!("control signal escaped a scalar operator"),
    }
}

/// pow's loop: keep the exponent small in the table harnesses (pow itself: k_pow_* harnesses)
fn pow_guard(op: BinOperator, b: i64) {
    if matches!(op, BinOperator::Pow | BinOperator::AssignPow) {
        kani::assume(b < 4);
    }
}

// ---- run-time dispatch ---------------------------------------------------------------------
macro_rules! t_dispatch {
    ($name:ident, $ops:expr, $ty:ty, $ctor:path) => {
        #[kani::proof]
        #[kani::unwind(20)]
        #[kani::stub(alloc::fmt::format, crate::verif_common::stub_format)]
        pub fn $name() {
            for_each_op!($ops, |op| {
            let (a, b): ($ty, $ty) = (kani::any(), kani::any());
            t_guard!($ty, op, b);
            let mut interp = Interpreter::without_stdlib();
            let ins = BinOperation { lhs: Instruction::Variable($ctor(a)), rhs: Instruction::Variable($ctor(b)), op };
            let got = unstop(ins.exec(&mut interp));
            let want = kernel(op, $ctor(a), $ctor(b));
            assert!(same_result(&got, &want));
            kani::cover!(got.is_ok());
            });
        }
    };
}
macro_rules! t_guard {
    (i64, $op:expr, $b:expr) => { pow_guard($op, $b) };
    ($t:ty, $op:expr, $b:expr) => {};
}
t_dispatch!(t_dispatch_int, INT_OPS, i64, Variable::Int);
t_dispatch!(t_dispatch_float, FLOAT_OPS, f64, Variable::Float);
t_dispatch!(t_dispatch_bool, BOOL_OPS, bool, Variable::Bool);

// ---- constant folding: both operands constant ------------------------------------------------
macro_rules! t_fold {
    ($name:ident, $ops:expr, $ty:ty, $ctor:path) => {
        #[kani::proof]
        #[kani::unwind(20)]
        #[kani::stub(alloc::fmt::format, crate::verif_common::stub_format)]
        pub fn $name() {
            for_each_op!($ops, |op| {
            let (a, b): ($ty, $ty) = (kani::any(), kani::any());
            t_guard!($ty, op, b);
            let interp = Interpreter::without_stdlib();
            let mut lv = LocalVariables::new(&interp);
            let ins = BinOperation { lhs: Instruction::Variable($ctor(a)), rhs: Instruction::Variable($ctor(b)), op };
            let want = kernel(op, $ctor(a), $ctor(b));
            match ins.recreate(&mut lv) {
                Ok(Instruction::Variable(v)) => {
                    assert!(same_result(&Ok(v), &want));
                    kani::cover!(true);
                }
                Ok(tree) => {
                    // not folded: then it must still evaluate to the kernel's result
                    let mut i2 = Interpreter::without_stdlib();
                    let got = unstop(tree.exec(&mut i2));
                    assert!(same_result(&got, &want));
                }
                Err(e) => {
                    assert!(same_result(&Err(e), &want));
                    kani::cover!(true);
                }
            }
            std::mem::forget(lv);
            });
        }
    };
}
t_fold!(t_fold_int, INT_OPS, i64, Variable::Int);
t_fold!(t_fold_float, FLOAT_OPS, f64, Variable::Float);
t_fold!(t_fold_bool, BOOL_OPS, bool, Variable::Bool);

// ---- constant folding with ONE constant operand: the rewritten tree evaluates like the kernel --
macro_rules! t_partial_fold {
    ($name:ident, $ops:expr, $ty:ty, $ctor:path, $tyname:expr, $const_on_right:expr) => {
        #[kani::proof]
        #[kani::unwind(20)]
        #[kani::stub(alloc::fmt::format, crate::verif_common::stub_format)]
        pub fn $name() {
            for_each_op!($ops, |op| {
            let (a, b): ($ty, $ty) = (kani::any(), kani::any());
            t_guard!($ty, op, b);
            let mut interp = Interpreter::without_stdlib();
            let (lhs, rhs) = if $const_on_right {
                interp.insert("x".into(), $ctor(a));
                (local("x", $tyname), Instruction::Variable($ctor(b)))
            } else {
                interp.insert("x".into(), $ctor(b));
                (Instruction::Variable($ctor(a)), local("x", $tyname))
            };
            let want = kernel(op, $ctor(a), $ctor(b));
            let ins = BinOperation { lhs, rhs, op };
            let folded = {
                let mut lv = LocalVariables::new(&interp);
                lv.insert("x".into(), $tyname.into());
                let f = ins.recreate(&mut lv);
                std::mem::forget(lv);
                f
            };
            match folded {
                Ok(tree) => {
                    let got = unstop(tree.exec(&mut interp));
                    assert!(same_result(&got, &want));
                    kani::cover!(got.is_ok());
                }
                // a parse-time error is allowed only for an operation that fails whenever it is
                // evaluated, i.e. for this very (symbolic) value of the non-constant operand too
                Err(e) => assert!(same_result(&Err(e), &want)),
            }
            });
        }
    };
}
t_partial_fold!(t_pfold_int_cr, INT_OPS, i64, Variable::Int, Type::Int, true);
t_partial_fold!(t_pfold_int_cl, INT_OPS, i64, Variable::Int, Type::Int, false);
t_partial_fold!(t_pfold_float_cr, FLOAT_OPS, f64, Variable::Float, Type::Float, true);
t_partial_fold!(t_pfold_float_cl, FLOAT_OPS, f64, Variable::Float, Type::Float, false);
t_partial_fold!(t_pfold_bool_cr, BOOL_OPS, bool, Variable::Bool, Type::Bool, true);
t_partial_fold!(t_pfold_bool_cl, BOOL_OPS, bool, Variable::Bool, Type::Bool, false);

// ---- compound assignment ---------------------------------------------------------------------
macro_rules! t_assign {
    ($name:ident, $ops:expr, $ty:ty, $ctor:path, $tyname:expr) => {
        #[kani::proof]
        #[kani::unwind(20)]
        #[kani::stub(alloc::fmt::format, crate::verif_common::stub_format)]
        pub fn $name() {
            for_each_op!($ops, |op| {
            let (a, b): ($ty, $ty) = (kani::any(), kani::any());
            t_guard!($ty, op, b);
            let cell = new_cell($tyname, $ctor(a));
            let mut interp = Interpreter::without_stdlib();
            let ins = BinOperation {
                lhs: Instruction::Variable(Variable::Mut(cell.clone())),
                rhs: Instruction::Variable($ctor(b)),
                op,
            };
            let got = unstop(ins.exec(&mut interp));
            let want = kernel(op, $ctor(a), $ctor(b));
            assert!(same_result(&got, &want));
            let content = cell.variable.read().unwrap().clone();
            match &want {
                // the update stores what it yields
                Ok(v) => assert!(same_scalar(&content, v)),
                // a failing update leaves the cell unchanged
                Err(_) => assert!(same_scalar(&content, &$ctor(a))),
            }
            kani::cover!(got.is_ok());
            });
        }
    };
}
t_assign!(t_assign_int, ASSIGN_INT_OPS, i64, Variable::Int, Type::Int);
t_assign!(t_assign_float, ASSIGN_FLOAT_OPS, f64, Variable::Float, Type::Float);
t_assign!(t_assign_bool, ASSIGN_BOOL_OPS, bool, Variable::Bool, Type::Bool);

// ---- unary operators: exec and fold ------------------------------------------------------------
#[kani::proof]
#[kani::unwind(20)]
#[kani::stub(alloc::fmt::format, crate::verif_common::stub_format)]
pub fn t_unary() {
    let mut which: u8 = 0;
    while which < 4 {
    let a: i64 = kani::any();
    let f: f64 = kani::any();
    let p: bool = kani::any();
    let (op, operand, want) = match which {
        0 => (UnaryOperator::UnaryMinus, Variable::Int(a), unary_minus::exec(Variable::Int(a))),
        1 => (UnaryOperator::UnaryMinus, Variable::Float(f), unary_minus::exec(Variable::Float(f))),
        2 => (UnaryOperator::Not, Variable::Int(a), not::exec(Variable::Int(a))),
        _ => (UnaryOperator::Not, Variable::Bool(p), not::exec(Variable::Bool(p))),
    };
    let mut interp = Interpreter::without_stdlib();
    let ins = UnaryOperation { instruction: Instruction::Variable(operand.clone()), op };
    let got = unstop(ins.exec(&mut interp));
    assert!(same_result(&got, &Ok(want.clone())));
    let mut lv = LocalVariables::new(&interp);
    match ins.recreate(&mut lv) {
        Ok(Instruction::Variable(v)) => assert!(same_scalar(&v, &want)),
        Ok(tree) => {
            let mut i2 = Interpreter::without_stdlib();
            assert!(same_result(&unstop(tree.exec(&mut i2)), &Ok(want)));
        }
        Err(_) => panic!("folding a unary scalar operator failed"),
    }
    std::mem::forget(lv);
    which += 1;
    }
    kani::cover!(true);
}
