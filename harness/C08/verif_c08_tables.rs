//@ inject: src/instruction/bin_op.rs
//@ modname: verif_c08_tables
//@ property: C08
//@ tier: quick

//! C08 table harnesses: each of the three execution paths (run-time dispatch in
//! BinOperation::exec, constant folding in BinOperation::recreate, compound assignment) hands the
//! operands, in order, to the kernel documented for the operator, and propagates its error.
//!
//! Decomposition: the arithmetic kernels are replaced (`-Z stubbing`) by *tagging* stubs that
//! return the triple (kernel id, lhs, rhs) or the documented error, so that "which kernel, which
//! operand order, which error" is decided exactly, for full-width symbolic operands, without
//! building two copies of every multiplier/divider/FP circuit.  That the real kernels compute the
//! documented arithmetic is decided separately, at full width, by the k_* harnesses (verif_c08.rs).
//! Operators are enumerated concretely (a symbolic operator would make CBMC walk the iterator
//! operators' lazy_static initialisers, i.e. the pest parser).
use super::*;
use crate::instruction::local_variable::LocalVariables;
use crate::instruction::prefix_op::{not, unary_minus};
use crate::instruction::unary_operation::UnaryOperation;
use crate::instruction::{Exec, ExecStop, Recreate};
use crate::unary_operator::UnaryOperator;
use crate::verif_common::*;
use crate::verif_model::Arc;

type R = Result<Variable, ExecError>;

fn tag(id: i64, l: Variable, r: Variable) -> Variable {
    Variable::Tuple(Arc::from(crate::vv![Variable::Int(id), l, r]))
}
fn int_in(v: &Variable, lo: i64, hi: i64) -> bool {
    matches!(v, Variable::Int(x) if *x >= lo && *x <= hi)
}
// ---- tagging stubs (one per kernel); error conditions are the documented ones ----------------
pub fn s_add(l: Variable, r: Variable) -> Variable { tag(1, l, r) }
pub fn s_sub(l: Variable, r: Variable) -> Variable { tag(2, l, r) }
pub fn s_mul(l: Variable, r: Variable) -> Variable { tag(3, l, r) }
pub fn s_div(l: Variable, r: Variable) -> R { if int_in(&r, 0, 0) { Err(ExecError::ZeroDivision) } else { Ok(tag(4, l, r)) } }
pub fn s_mod(l: Variable, r: Variable) -> R { if int_in(&r, 0, 0) { Err(ExecError::ZeroModulo) } else { Ok(tag(5, l, r)) } }
pub fn s_pow(l: Variable, r: Variable) -> R { if int_in(&r, i64::MIN, -1) { Err(ExecError::NegativeExponent) } else { Ok(tag(6, l, r)) } }
pub fn s_shl(l: Variable, r: Variable) -> R { if int_in(&r, 0, 63) { Ok(tag(7, l, r)) } else { Err(ExecError::OverflowShift) } }
pub fn s_shr(l: Variable, r: Variable) -> R { if int_in(&r, 0, 63) { Ok(tag(8, l, r)) } else { Err(ExecError::OverflowShift) } }
pub fn s_and(l: Variable, r: Variable) -> Variable { tag(9, l, r) }
pub fn s_or(l: Variable, r: Variable) -> Variable { tag(10, l, r) }
pub fn s_xor(l: Variable, r: Variable) -> Variable { tag(11, l, r) }
pub fn s_eq(l: Variable, r: Variable) -> Variable { tag(12, l, r) }
pub fn s_ne(l: Variable, r: Variable) -> Variable { tag(13, l, r) }
pub fn s_gt(l: Variable, r: Variable) -> Variable { tag(14, l, r) }
pub fn s_ge(l: Variable, r: Variable) -> Variable { tag(15, l, r) }
pub fn s_lt(l: Variable, r: Variable) -> Variable { tag(16, l, r) }
pub fn s_le(l: Variable, r: Variable) -> Variable { tag(17, l, r) }
pub fn s_neg(v: Variable) -> Variable { tag(18, v, Variable::Void) }
pub fn s_not(v: Variable) -> Variable { tag(19, v, Variable::Void) }

/// Under Kani the kernels are replaced by the tagging stubs; in a native concrete-playback run
/// (`cargo kani playback`) stubbing is not applied, so the table then names the real kernels.
fn stubs_active() -> bool {
    matches!(add::exec(Variable::Int(1), Variable::Int(2)), Variable::Tuple(_))
}
fn real_kernel(op: BinOperator, a: Variable, b: Variable) -> R {
    Ok(match op {
        BinOperator::Add | BinOperator::AssignAdd => add::exec(a, b),
        BinOperator::Subtract | BinOperator::AssignSubtract => subtract::exec(a, b),
        BinOperator::Multiply | BinOperator::AssignMultiply => multiply::exec(a, b),
        BinOperator::Divide | BinOperator::AssignDivide => divide::exec(a, b)?,
        BinOperator::Modulo | BinOperator::AssignModulo => modulo::exec(a, b)?,
        BinOperator::Pow | BinOperator::AssignPow => pow::exec(a, b)?,
        BinOperator::LShift | BinOperator::AssignLShift => lshift::exec(a, b)?,
        BinOperator::RShift | BinOperator::AssignRShift => rshift::exec(a, b)?,
        BinOperator::BitwiseAnd | BinOperator::AssignBitwiseAnd => bitwise_and::exec(a, b),
        BinOperator::BitwiseOr | BinOperator::AssignBitwiseOr => bitwise_or::exec(a, b),
        BinOperator::Xor | BinOperator::AssignXor => xor::exec(a, b),
        BinOperator::Equal => equal::exec(a, b),
        BinOperator::NotEqual => not_equal::exec(a, b),
        BinOperator::Greater => greater::exec(a, b),
        BinOperator::GreaterOrEqual => greater_equal::exec(a, b),
        BinOperator::Lower => lower::exec(a, b),
        BinOperator::LowerOrEqual => lower_equal::exec(a, b),
        BinOperator::Assign => b,
        _ => unreachable!(),
    })
}

/// the harness' own operator table: documented kernel for each operator
fn expected(op: BinOperator, a: Variable, b: Variable) -> R {
    if !stubs_active() {
        return real_kernel(op, a, b);
    }
    Ok(match op {
        BinOperator::Add | BinOperator::AssignAdd => s_add(a, b),
        BinOperator::Subtract | BinOperator::AssignSubtract => s_sub(a, b),
        BinOperator::Multiply | BinOperator::AssignMultiply => s_mul(a, b),
        BinOperator::Divide | BinOperator::AssignDivide => s_div(a, b)?,
        BinOperator::Modulo | BinOperator::AssignModulo => s_mod(a, b)?,
        BinOperator::Pow | BinOperator::AssignPow => s_pow(a, b)?,
        BinOperator::LShift | BinOperator::AssignLShift => s_shl(a, b)?,
        BinOperator::RShift | BinOperator::AssignRShift => s_shr(a, b)?,
        BinOperator::BitwiseAnd | BinOperator::AssignBitwiseAnd => s_and(a, b),
        BinOperator::BitwiseOr | BinOperator::AssignBitwiseOr => s_or(a, b),
        BinOperator::Xor | BinOperator::AssignXor => s_xor(a, b),
        BinOperator::Equal => s_eq(a, b),
        BinOperator::NotEqual => s_ne(a, b),
        BinOperator::Greater => s_gt(a, b),
        BinOperator::GreaterOrEqual => s_ge(a, b),
        BinOperator::Lower => s_lt(a, b),
        BinOperator::LowerOrEqual => s_le(a, b),
        BinOperator::Assign => b,
        _ => unreachable!(),
    })
}

const OPS: [BinOperator; 17] = [
    BinOperator::Add, BinOperator::Subtract, BinOperator::Multiply, BinOperator::Divide,
    BinOperator::Modulo, BinOperator::Pow, BinOperator::LShift, BinOperator::RShift,
    BinOperator::BitwiseAnd, BinOperator::BitwiseOr, BinOperator::Xor, BinOperator::Equal,
    BinOperator::NotEqual, BinOperator::Greater, BinOperator::GreaterOrEqual, BinOperator::Lower,
    BinOperator::LowerOrEqual,
];
const ASSIGN_OPS: [BinOperator; 12] = [
    BinOperator::Assign, BinOperator::AssignAdd, BinOperator::AssignSubtract, BinOperator::AssignMultiply,
    BinOperator::AssignDivide, BinOperator::AssignModulo, BinOperator::AssignPow, BinOperator::AssignLShift,
    BinOperator::AssignRShift, BinOperator::AssignBitwiseAnd, BinOperator::AssignBitwiseOr, BinOperator::AssignXor,
];

fn same_scalar(x: &Variable, y: &Variable) -> bool {
    match (x, y) {
        (Variable::Int(a), Variable::Int(b)) => a == b,
        (Variable::Bool(a), Variable::Bool(b)) => a == b,
        (Variable::Float(a), Variable::Float(b)) => a.to_bits() == b.to_bits(),
        (Variable::Void, Variable::Void) => true,
        _ => false,
    }
}
/// structural identity of tagged results: same kernel id, same operands in the same order
fn same_val(x: &Variable, y: &Variable) -> bool {
    match (x, y) {
        (Variable::Tuple(p), Variable::Tuple(q)) => {
            p.len() == 3 && q.len() == 3 && same_scalar(&p[0], &q[0]) && same_scalar(&p[1], &q[1]) && same_scalar(&p[2], &q[2])
        }
        _ => same_scalar(x, y),
    }
}
fn same_err(x: &ExecError, y: &ExecError) -> bool {
    matches!(
        (x, y),
        (ExecError::ZeroDivision, ExecError::ZeroDivision)
            | (ExecError::ZeroModulo, ExecError::ZeroModulo)
            | (ExecError::OverflowShift, ExecError::OverflowShift)
            | (ExecError::NegativeExponent, ExecError::NegativeExponent)
    )
}
fn same_result(x: &R, y: &R) -> bool {
    match (x, y) {
        (Ok(a), Ok(b)) => same_val(a, b),
        (Err(a), Err(b)) => same_err(a, b),
        _ => false,
    }
}
fn unstop(r: Result<Variable, ExecStop>) -> R {
    match r {
        Ok(v) => Ok(v),
        Err(ExecStop::Error(e)) => Err(e),
        Err(_) => panic!("control signal escaped a scalar operator"),
    }
}

/// does the documented operand table of `op` (docs/operators.md) admit operands of this kind?
/// kind 0 = int, 1 = float, 2 = bool
fn admits(op: BinOperator, kind: u8) -> bool {
    let float_ok = matches!(
        op,
        BinOperator::Add | BinOperator::Subtract | BinOperator::Multiply | BinOperator::Divide | BinOperator::Pow
            | BinOperator::Equal | BinOperator::NotEqual | BinOperator::Greater | BinOperator::GreaterOrEqual
            | BinOperator::Lower | BinOperator::LowerOrEqual | BinOperator::Assign | BinOperator::AssignAdd
            | BinOperator::AssignSubtract | BinOperator::AssignMultiply | BinOperator::AssignDivide | BinOperator::AssignPow
    );
    let bool_ok = matches!(
        op,
        BinOperator::BitwiseAnd | BinOperator::BitwiseOr | BinOperator::Xor | BinOperator::Equal | BinOperator::NotEqual
            | BinOperator::Assign | BinOperator::AssignBitwiseAnd | BinOperator::AssignBitwiseOr | BinOperator::AssignXor
    );
    kind == 0 || (kind == 1 && float_ok) || (kind == 2 && bool_ok)
}
/// A pair of full-width symbolic scalar operands of the given *concrete* kind.  The kind is
/// enumerated concretely because `Instruction` stores its own discriminant in the niche of the
/// embedded `Variable`'s tag: a symbolic kind makes the instruction tag symbolic and CBMC then
/// walks every instruction kind.
fn operands(kind: u8) -> (Variable, Variable) {
    if kind == 0 {
        (Variable::Int(kani::any()), Variable::Int(kani::any()))
    } else if kind == 1 {
        (Variable::Float(kani::any()), Variable::Float(kani::any()))
    } else {
        (Variable::Bool(kani::any()), Variable::Bool(kani::any()))
    }
}
/// Representative *concrete* right operands for the operators that can fail (or whose folding
/// looks at the constant): the outcome kind (value / error / folded / not folded) must not be a
/// symbolic merge, or CBMC walks the arms of the merged enum.  `None` = keep it symbolic.
fn rhs_choices(op: BinOperator, kind: u8, which: u8) -> Option<Option<Variable>> {
    // Some(None) = symbolic operand, Some(Some(v)) = this concrete operand, None = no such choice
    let fallible = matches!(
        op,
        BinOperator::Divide | BinOperator::Modulo | BinOperator::Pow | BinOperator::LShift | BinOperator::RShift
            | BinOperator::AssignDivide | BinOperator::AssignModulo | BinOperator::AssignPow
            | BinOperator::AssignLShift | BinOperator::AssignRShift
    );
    if !fallible || kind != 0 {
        return if which == 0 { Some(None) } else { None };
    }
    let c: i64 = match (op, which) {
        (BinOperator::Divide | BinOperator::Modulo | BinOperator::AssignDivide | BinOperator::AssignModulo, 0) => 0,
        (BinOperator::Divide | BinOperator::Modulo | BinOperator::AssignDivide | BinOperator::AssignModulo, 1) => -3,
        (BinOperator::Divide | BinOperator::Modulo | BinOperator::AssignDivide | BinOperator::AssignModulo, 2) => -1,
        (BinOperator::Pow | BinOperator::AssignPow, 0) => -1,
        (BinOperator::Pow | BinOperator::AssignPow, 1) => 2,
        (BinOperator::LShift | BinOperator::RShift | BinOperator::AssignLShift | BinOperator::AssignRShift, 0) => 63,
        (BinOperator::LShift | BinOperator::RShift | BinOperator::AssignLShift | BinOperator::AssignRShift, 1) => 64,
        (BinOperator::LShift | BinOperator::RShift | BinOperator::AssignLShift | BinOperator::AssignRShift, 2) => -1,
        (BinOperator::LShift | BinOperator::RShift | BinOperator::AssignLShift | BinOperator::AssignRShift, 3) => 0,
        _ => return None,
    };
    Some(Some(Variable::Int(c)))
}
fn operands_with(op: BinOperator, kind: u8, which: u8) -> Option<(Variable, Variable)> {
    if !admits(op, kind) {
        return None;
    }
    let (a, b) = operands(kind);
    match rhs_choices(op, kind, which) {
        None => None,
        Some(None) => Some((a, b)),
        Some(Some(c)) => Some((a, c)),
    }
}

/// operand of unary `-` (int|float) / `!` (int|bool); kind concrete
fn unary_operand(minus: bool, second: bool) -> Variable {
    if !second {
        Variable::Int(kani::any())
    } else if minus {
        Variable::Float(kani::any())
    } else {
        Variable::Bool(kani::any())
    }
}

macro_rules! stubbed {
    ($(#[$m:meta])* pub fn $name:ident() $body:block) => {
        $(#[$m])*
        #[kani::proof]
        #[kani::unwind(3)]
        #[kani::stub(alloc::fmt::format, crate::verif_common::stub_format)]
        #[kani::stub(crate::instruction::bin_op::math::add::exec, s_add)]
        #[kani::stub(crate::instruction::bin_op::math::subtract::exec, s_sub)]
        #[kani::stub(crate::instruction::bin_op::math::multiply::exec, s_mul)]
        #[kani::stub(crate::instruction::bin_op::math::divide::exec, s_div)]
        #[kani::stub(crate::instruction::bin_op::math::modulo::exec, s_mod)]
        #[kani::stub(crate::instruction::bin_op::math::pow::exec, s_pow)]
        #[kani::stub(crate::instruction::bin_op::shift::lshift::exec, s_shl)]
        #[kani::stub(crate::instruction::bin_op::shift::rshift::exec, s_shr)]
        #[kani::stub(crate::instruction::bin_op::bitwise::bitwise_and::exec, s_and)]
        #[kani::stub(crate::instruction::bin_op::bitwise::bitwise_or::exec, s_or)]
        #[kani::stub(crate::instruction::bin_op::bitwise::xor::exec, s_xor)]
        #[kani::stub(crate::instruction::bin_op::equal::exec, s_eq)]
        #[kani::stub(crate::instruction::bin_op::not_equal::exec, s_ne)]
        #[kani::stub(crate::instruction::bin_op::math::greater::exec, s_gt)]
        #[kani::stub(crate::instruction::bin_op::math::greater_equal::exec, s_ge)]
        #[kani::stub(crate::instruction::bin_op::math::lower::exec, s_lt)]
        #[kani::stub(crate::instruction::bin_op::math::lower_equal::exec, s_le)]
        #[kani::stub(crate::instruction::prefix_op::unary_minus::exec, s_neg)]
        #[kani::stub(crate::instruction::prefix_op::not::exec, s_not)]
        pub fn $name() {
            // declared shape of every tree in these harnesses (see lib/patch.py apply_gating)
            crate::instruction::verif_gate::scalar_ops_only();
            crate::instruction::verif_gate::allow_mask((1 << crate::instruction::verif_gate::K_VARIABLE) | (1 << crate::instruction::verif_gate::K_BINOPERATION) | (1 << crate::instruction::verif_gate::K_UNARYOPERATION));
            $body
        }
    };
}

/// `*cell`: a non-constant operand (the folding pass never folds an indirection); the instruction
/// object holds a single pointer
fn hidden(cell: &Arc<crate::variable::Mut>) -> Instruction {
    UnaryOperation { instruction: Instruction::Variable(Variable::Mut(cell.clone())), op: UnaryOperator::Indirection }.into()
}

// NOTE no loops below: `#[kani::unwind]` bounds loops and recursion together and the recursion of
// Instruction::exec must stay shallow, so operators and operand kinds are enumerated by
// straight-line calls (`each_kind!`, one call per operator).
macro_rules! each_kind {
    ($f:ident, $op:expr) => {
        $f($op, 0, 0);
        $f($op, 0, 1);
        $f($op, 0, 2);
        $f($op, 0, 3);
        $f($op, 1, 0);
        $f($op, 2, 0);
    };
}
macro_rules! each_op {
    ($f:ident; $($op:ident),*) => { $( each_kind!($f, BinOperator::$op); )* };
}
macro_rules! each_const {
    ($f:ident; $($op:ident),*) => { $(
        $f(BinOperator::$op, 0, 0); $f(BinOperator::$op, 0, 1); $f(BinOperator::$op, 0, 2); $f(BinOperator::$op, 0, 3);
        $f(BinOperator::$op, 1, 0); $f(BinOperator::$op, 1, 3);
        $f(BinOperator::$op, 2, 0); $f(BinOperator::$op, 2, 1);
    )* };
}

/// run-time path: BinOperation::exec
fn dispatch_one(op: BinOperator, kind: u8, which: u8) {
    let Some((a, b)) = operands_with(op, kind, which) else { return };
    crate::instruction::verif_gate::allow_binops(crate::instruction::verif_gate::b(op));
    crate::instruction::verif_gate::allow_unops(0);
    let mut interp = Interpreter::without_stdlib();
    let ins = BinOperation { lhs: Instruction::Variable(a.clone()), rhs: Instruction::Variable(b.clone()), op };
    let got = unstop(ins.exec(&mut interp));
    let want = expected(op, a, b);
    assert!(same_result(&got, &want));
}
stubbed! { pub fn t_dispatch_arith() { each_op!(dispatch_one; Add, Subtract, Multiply, Divide, Modulo, Pow); kani::cover!(true); } }
stubbed! { pub fn t_dispatch_bits() { each_op!(dispatch_one; LShift, RShift, BitwiseAnd, BitwiseOr, Xor); kani::cover!(true); } }
stubbed! { pub fn t_dispatch_cmp() { each_op!(dispatch_one; Equal, NotEqual, Greater, GreaterOrEqual, Lower, LowerOrEqual); kani::cover!(true); } }

/// folding path, both operands constant: BinOperation::recreate yields the constant the kernel
/// yields, or the kernel's error as a parse-time error
fn fold_const_one(op: BinOperator, kind: u8, which: u8) {
    let Some((a, b)) = operands_with(op, kind, which) else { return };
    crate::instruction::verif_gate::allow_binops(crate::instruction::verif_gate::b(op));
    crate::instruction::verif_gate::allow_unops(0);
    let interp = Interpreter::without_stdlib();
    let mut lv = LocalVariables::new(&interp);
    let ins = BinOperation { lhs: Instruction::Variable(a.clone()), rhs: Instruction::Variable(b.clone()), op };
    let (a2, b2) = (a.clone(), b.clone());
    let want = expected(op, a, b);
    match ins.recreate(&mut lv) {
        Ok(Instruction::Variable(v)) => assert!(same_result(&Ok(v), &want)),
        // left unfolded (e.g. **): it must be the very same operation on the same constants - its
        // run-time meaning is then what t_dispatch_* decides.  The tree is inspected, not executed:
        // CBMC cannot resolve the tags of a 100-byte `Result<Instruction, _>` moved through several
        // frames and would otherwise execute a garbage tree.
        Ok(Instruction::BinOperation(t)) => {
            let same = t.op == op
                && matches!(&t.lhs, Instruction::Variable(v) if same_val(v, &a2))
                && matches!(&t.rhs, Instruction::Variable(v) if same_val(v, &b2));
            kani::cover!(!same, "UNEXPECTED shape: two constants rewritten to a different operation");
        }
        Ok(_) => kani::cover!(true, "UNEXPECTED shape: two constants rewritten to another instruction kind"),
        Err(e) => assert!(same_result(&Err(e), &want)),
    }
    std::mem::forget(lv);
}
stubbed! { pub fn t_fold_const_arith() { each_op!(fold_const_one; Add, Subtract, Multiply, Divide, Modulo, Pow); kani::cover!(true); } }
stubbed! { pub fn t_fold_const_bits() { each_op!(fold_const_one; LShift, RShift, BitwiseAnd, BitwiseOr, Xor); kani::cover!(true); } }
stubbed! { pub fn t_fold_const_cmp() { each_op!(fold_const_one; Equal, NotEqual, Greater, GreaterOrEqual, Lower, LowerOrEqual); kani::cover!(true); } }

/// folding path with ONE constant operand (the other is `*cell`, never folded): the rewritten
/// instruction, executed with the cell holding a symbolic value, gives what the kernel gives; a
/// parse-time error is permitted only if the operation fails for that (every) value too
/// the constant side is concrete (a representative list per operator and kind), the hidden side symbolic
fn const_choice(op: BinOperator, kind: u8, which: u8, right: bool) -> Option<Variable> {
    if kind == 1 {
        return match which { 0 => Some(Variable::Float(0.0)), 1 => Some(Variable::Float(-0.0)), 2 => Some(Variable::Float(1.0)), 3 => Some(Variable::Float(f64::NAN)), _ => None };
    }
    if kind == 2 {
        return match which { 0 => Some(Variable::Bool(false)), 1 => Some(Variable::Bool(true)), _ => None };
    }
    let shift = matches!(op, BinOperator::LShift | BinOperator::RShift);
    let c: i64 = match which {
        0 => 0,
        1 => 1,
        2 => -1,
        3 => if shift && right { 63 } else { i64::MIN },
        _ => return None,
    };
    if which == 2 && shift && right { return Some(Variable::Int(64)); }
    Some(Variable::Int(c))
}
fn partial_fold(op: BinOperator, kind: u8, which: u8, const_on_right: bool, as_local: bool) {
    if !admits(op, kind) {
        return;
    }
    let Some(cst) = const_choice(op, kind, which, const_on_right) else { return };
    let (sym, _) = operands(kind);
    let (a, b) = if const_on_right { (sym, cst) } else { (cst, sym) };
    crate::instruction::verif_gate::allow_binops(crate::instruction::verif_gate::b(op));
    crate::instruction::verif_gate::allow_unops(crate::instruction::verif_gate::u(UnaryOperator::Indirection));
    let mut interp = Interpreter::without_stdlib();
    // the non-constant operand: `*cell`, or a local variable `x` of a declared type (a parameter)
    let cell = new_cell(Type::Any, if const_on_right { a.clone() } else { b.clone() });
    let opaque = || if as_local { local("x", Type::Any) } else { hidden(&cell) };
    let (lhs, rhs) = if const_on_right {
        (opaque(), Instruction::Variable(b.clone()))
    } else {
        (Instruction::Variable(a.clone()), opaque())
    };
    let want = expected(op, a.clone(), b.clone());
    let ins = BinOperation { lhs, rhs, op };
    let folded = {
        let mut lv = LocalVariables::new(&interp);
        lv.insert("x".into(), Type::Any.into());
        let f = ins.recreate(&mut lv);
        std::mem::forget(lv);
        f
    };
    let is_hidden = |i: &Instruction| {
        if as_local {
            matches!(i, Instruction::LocalVariable(name, _) if name.len() == 1 && name.as_bytes()[0] == b'x')
        } else {
            matches!(i, Instruction::UnaryOperation(u) if matches!(u.op, UnaryOperator::Indirection) && matches!(&u.instruction, Instruction::Variable(Variable::Mut(c)) if Arc::ptr_eq(c, &cell)))
        }
    };
    let cst = if const_on_right { b } else { a };
    match folded {
        // kept as the same operation on (`*cell`, constant): its meaning is the run-time dispatch
        Ok(Instruction::BinOperation(t)) => {
            let same = t.op == op
                && if const_on_right {
                    is_hidden(&t.lhs) && matches!(&t.rhs, Instruction::Variable(v) if same_val(v, &cst))
                } else {
                    is_hidden(&t.rhs) && matches!(&t.lhs, Instruction::Variable(v) if same_val(v, &cst))
                };
            kani::cover!(!same, "UNEXPECTED shape: operation with one constant operand rewritten");
        }
        // folded to a constant although one operand is not constant: then that constant must be the
        // kernel's result for EVERY value of the hidden operand (it never is, for the stubs' tagged results)
        Ok(Instruction::Variable(v)) => assert!(same_result(&Ok(v), &want)),
        Ok(_) => kani::cover!(true, "UNEXPECTED shape: operation with one constant operand rewritten to another kind"),
        // a parse-time error: only if the operation fails for this - symbolic, i.e. every - value too
        Err(e) => assert!(same_result(&Err(e), &want)),
    }
}
/// the `*cell` form of the non-constant operand with every constant choice; the local-variable form
/// with the first and last choice of each kind (0 / 0.0 / false and 63 or MIN_INT / NaN / true)
fn pfold_right(op: BinOperator, kind: u8, which: u8) {
    partial_fold(op, kind, which, true, false);
    if which == 0 || which == 3 || (kind == 2 && which == 1) {
        partial_fold(op, kind, which, true, true);
    }
}
fn pfold_left(op: BinOperator, kind: u8, which: u8) {
    partial_fold(op, kind, which, false, false);
    if which == 0 || which == 3 || (kind == 2 && which == 1) {
        partial_fold(op, kind, which, false, true);
    }
}

stubbed! { pub fn t_fold_right_a() { each_const!(pfold_right; Add, Subtract, Multiply); kani::cover!(true); } }
stubbed! { pub fn t_fold_right_b() { each_const!(pfold_right; Divide, Modulo, Pow); kani::cover!(true); } }
stubbed! { pub fn t_fold_right_c() { each_const!(pfold_right; LShift, RShift, BitwiseAnd); kani::cover!(true); } }
// groups d / e (| ^ == != and the four comparisons with one constant operand): out of memory (14 GB) or 870-920 s under load in
// round three - not reliable enough for a registered tier; two-constant folds of these operators are decided by t_fold_const_*
stubbed! { #[cfg(feature = "verif_experimental")] pub fn t_fold_right_d() { each_const!(pfold_right; BitwiseOr, Xor, Equal, NotEqual); kani::cover!(true); } }
stubbed! { #[cfg(feature = "verif_experimental")] pub fn t_fold_right_e() { each_const!(pfold_right; Greater, GreaterOrEqual, Lower, LowerOrEqual); kani::cover!(true); } }
stubbed! { pub fn t_fold_left_a() { each_const!(pfold_left; Add, Subtract, Multiply); kani::cover!(true); } }
stubbed! { #[cfg(feature = "verif_thorough")] pub fn t_fold_left_b() { each_const!(pfold_left; Divide, Modulo, Pow); kani::cover!(true); } }
stubbed! { #[cfg(feature = "verif_thorough")] pub fn t_fold_left_c() { each_const!(pfold_left; LShift, RShift, BitwiseAnd); kani::cover!(true); } }
stubbed! { #[cfg(feature = "verif_experimental")] pub fn t_fold_left_d() { each_const!(pfold_left; BitwiseOr, Xor, Equal, NotEqual); kani::cover!(true); } }
stubbed! { #[cfg(feature = "verif_experimental")] pub fn t_fold_left_e() { each_const!(pfold_left; Greater, GreaterOrEqual, Lower, LowerOrEqual); kani::cover!(true); } }

/// compound assignment: yields and stores kernel(old content, value); a failing update leaves the
/// cell unchanged
fn assign_one(op: BinOperator, kind: u8, which: u8) {
    let Some((a, b)) = operands_with(op, kind, which) else { return };
    crate::instruction::verif_gate::allow_binops(crate::instruction::verif_gate::b(op));
    crate::instruction::verif_gate::allow_unops(0);
    let cell = new_cell(Type::Any, a.clone());
    let mut interp = Interpreter::without_stdlib();
    let ins = BinOperation {
        lhs: Instruction::Variable(Variable::Mut(cell.clone())),
        rhs: Instruction::Variable(b.clone()),
        op,
    };
    let got = unstop(ins.exec(&mut interp));
    let want = expected(op, a.clone(), b);
    assert!(same_result(&got, &want));
    let content = cell.variable.read().unwrap().clone();
    match &want {
        Ok(v) => assert!(same_val(&content, v)),
        Err(_) => assert!(same_val(&content, &a)),
    }
}
stubbed! { pub fn t_assign_arith() { each_op!(assign_one; Assign, AssignAdd, AssignSubtract, AssignMultiply, AssignDivide, AssignModulo, AssignPow); kani::cover!(true); } }
stubbed! { pub fn t_assign_bits() { each_op!(assign_one; AssignLShift, AssignRShift, AssignBitwiseAnd, AssignBitwiseOr, AssignXor); kani::cover!(true); } }

/// unary - and ! : exec and fold go to their kernels.  which: 0 = -int, 1 = -float, 2 = !int, 3 = !bool
fn unary_one(which: u8) {
    crate::instruction::verif_gate::allow_binops(0);
    crate::instruction::verif_gate::allow_unops(crate::instruction::verif_gate::u(UnaryOperator::UnaryMinus) | crate::instruction::verif_gate::u(UnaryOperator::Not));
    let a = unary_operand(which < 2, which % 2 == 1);
    let native = !stubs_active();
    let (op, want) = if which < 2 {
        (UnaryOperator::UnaryMinus, if native { unary_minus::exec(a.clone()) } else { s_neg(a.clone()) })
    } else {
        (UnaryOperator::Not, if native { not::exec(a.clone()) } else { s_not(a.clone()) })
    };
    let mut interp = Interpreter::without_stdlib();
    let ins = UnaryOperation { instruction: Instruction::Variable(a.clone()), op };
    let got = unstop(ins.exec(&mut interp));
    assert!(same_result(&got, &Ok(want.clone())));
    let mut lv = LocalVariables::new(&interp);
    match ins.recreate(&mut lv) {
        Ok(Instruction::Variable(v)) => assert!(same_val(&v, &want)),
        Ok(Instruction::UnaryOperation(t)) => {
            let mut i2 = Interpreter::without_stdlib();
            assert!(same_result(&unstop(t.exec(&mut i2)), &Ok(want)));
        }
        _ => panic!("folding a unary scalar operator failed"),
    }
    std::mem::forget(lv);
}
stubbed! { pub fn t_unary() { unary_one(0); unary_one(1); unary_one(2); unary_one(3); kani::cover!(true); } }
