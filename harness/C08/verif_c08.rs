//@ inject: src/instruction/bin_op.rs
//@ modname: verif_c08
//@ property: C08
//@ tier: quick

//! C08 - scalar operators are total and follow the documented arithmetic, on all three paths
//! (run-time dispatch, constant folding, compound assignment).  Operands are full-width
//! symbolic i64 / f64 / bool.
//!
//! Structure (composition is by equality of total functions over the same symbolic domain):
//!   k_*      kernel  == documented arithmetic (oracle in verif_common, from docs/operators.md)
//!   t_*      table harnesses: BinOperation::{exec,recreate} / UnaryOperation / compound assignment
//!            with a *symbolic operator*  == the kernel named by the harness' own operator table.
use super::*;
use crate::instruction::local_variable::LocalVariables;
use crate::instruction::prefix_op::{not, unary_minus};
use crate::instruction::unary_operation::UnaryOperation;
use crate::instruction::{Exec, ExecStop, Recreate};
use crate::unary_operator::UnaryOperator;
use crate::verif_common::*;
use crate::verif_model::Arc;

fn ok<F: FnOnce(Variable, Variable) -> Variable>(f: F) -> impl FnOnce(Variable, Variable) -> Result<Variable, ExecError> {
    move |a, b| Ok(f(a, b))
}

// ------------------------------------------------------------------------------------------
// kernels, int x int
macro_rules! k_int {
    ($name:ident, $kernel:expr, $spec:expr) => {
        #[kani::proof]
        #[kani::unwind(3)]
        #[kani::stub(alloc::fmt::format, crate::verif_common::stub_format)]
        pub fn $name() {
            let (a, b): (i64, i64) = (kani::any(), kani::any());
            let s = $spec(a, b);
            let r: Result<Variable, ExecError> = ($kernel)(Variable::Int(a), Variable::Int(b));
            assert!(agrees(&r, s));
            kani::cover!(r.is_ok());
        }
    };
}
k_int!(k_add_int, ok(add::exec), spec_add);
k_int!(k_sub_int, ok(subtract::exec), spec_sub);
k_int!(k_shl_int, lshift::exec, spec_shl);
k_int!(k_shr_int, rshift::exec, spec_shr);
k_int!(k_and_int, ok(bitwise_and::exec), spec_and);
k_int!(k_or_int, ok(bitwise_or::exec), spec_or);
k_int!(k_xor_int, ok(xor::exec), spec_xor);
k_int!(k_lt_int, ok(lower::exec), spec_lt);
k_int!(k_le_int, ok(lower_equal::exec), spec_le);
k_int!(k_gt_int, ok(greater::exec), spec_gt);
k_int!(k_ge_int, ok(greater_equal::exec), spec_ge);
k_int!(k_eq_int, ok(equal::exec), spec_eq);
k_int!(k_ne_int, ok(not_equal::exec), spec_ne);

/// `*` : product in i128 truncated to 64 bits
#[kani::proof]
#[kani::unwind(3)]
#[kani::stub(alloc::fmt::format, crate::verif_common::stub_format)]
pub fn k_mul_int() {
    let (a, b): (i64, i64) = (kani::any(), kani::any());
    let r = multiply::exec(Variable::Int(a), Variable::Int(b));
    assert!(as_int(&r) == Some(a.wrapping_mul(b)));
    kani::cover!(true);
}
/// the primitive used as oracle above is the documented one: low 64 bits of the exact product
/// (exact product formed in i128; operands restricted to 32 significant bits + sign so that the
/// solver finishes - see bounds)
#[kani::proof]
#[kani::unwind(3)]
#[kani::stub(alloc::fmt::format, crate::verif_common::stub_format)]
pub fn k_mul_int_exact_narrow() {
    let (a, b): (i32, i64) = (kani::any(), kani::any());
    kani::assume(b >= -(1 << 20) && b <= (1 << 20));
    let a = (a as i64) << 20; // exercises wrap-around: |a*b| up to 2^71
    let r = multiply::exec(Variable::Int(a), Variable::Int(b));
    assert!(as_int(&r) == Some(trunc(a as i128 * b as i128)));
    kani::cover!(a as i128 * b as i128 > i64::MAX as i128);
}


/// `/` and `%`, full width.  No second divider/multiplier circuit is built: the returned quotient
/// and remainder are checked against the order-theoretic facts that characterise truncating
/// division up to the exact lemma q*b + r == a, which is checked for constant divisors
/// (k_divmod_const_divisors) and at reduced width (k_divmod_lemma_narrow).
#[kani::proof]
#[kani::unwind(3)]
#[kani::stub(alloc::fmt::format, crate::verif_common::stub_format)]
pub fn k_div_int() {
    let (a, b): (i64, i64) = (kani::any(), kani::any());
    let r = divide::exec(Variable::Int(a), Variable::Int(b));
    if b == 0 {
        assert!(matches!(r, Err(ExecError::ZeroDivision)));
    } else if a == i64::MIN && b == -1 {
        assert!(matches!(r, Ok(Variable::Int(i64::MIN))));
    } else {
        let q = match r { Ok(Variable::Int(q)) => q, _ => panic!("int / int did not give an int") };
        let (a2, b2, q2) = (a as i128, b as i128, q as i128);
        let abs = |x: i128| if x < 0 { -x } else { x };
        // |q| <= |a| ; q == 0 <=> |a| < |b| ; sign(q) == sign(a)*sign(b) unless q == 0
        assert!(abs(q2) <= abs(a2));
        assert!((q == 0) == (abs(a2) < abs(b2)));
        assert!(q == 0 || ((q < 0) == ((a < 0) != (b < 0))));
        // dividing by +-1
        if b == 1 { assert!(q == a); }
        if b == -1 { assert!(q2 == -a2); }
    }
    kani::cover!(r.is_ok());
    kani::cover!(r.is_err());
}
#[kani::proof]
#[kani::unwind(3)]
#[kani::stub(alloc::fmt::format, crate::verif_common::stub_format)]
pub fn k_mod_int() {
    let (a, b): (i64, i64) = (kani::any(), kani::any());
    let r = modulo::exec(Variable::Int(a), Variable::Int(b));
    if b == 0 {
        assert!(matches!(r, Err(ExecError::ZeroModulo)));
    } else if a == i64::MIN && b == -1 {
        assert!(matches!(r, Ok(Variable::Int(0))));
    } else {
        let m = match r { Ok(Variable::Int(m)) => m, _ => panic!("int % int did not give an int") };
        let (a2, b2, m2) = (a as i128, b as i128, m as i128);
        let abs = |x: i128| if x < 0 { -x } else { x };
        // |r| < |b| ; r has the sign of the dividend ; |a| < |b| => r == a
        assert!(abs(m2) < abs(b2));
        assert!(m == 0 || ((m < 0) == (a < 0)));
        if abs(a2) < abs(b2) { assert!(m == a); }
    }
    kani::cover!(r.is_ok());
    kani::cover!(r.is_err());
}

// ---- pow --------------------------------------------------------------------------------
fn spec_pow_const(base: i64, e: i64) -> Spec {
    // closed forms modulo 2^64 for the bases whose powers have one
    if e < 0 {
        return Spec::NegativeExponent;
    }
    Spec::Int(match base {
        0 => if e == 0 { 1 } else { 0 },
        1 => 1,
        -1 => if e & 1 == 0 { 1 } else { -1 },
        2 => if e < 64 { ((1u64) << (e as u32)) as i64 } else { 0 },
        -2 => if e >= 64 { 0 } else if e & 1 == 0 { ((1u64) << (e as u32)) as i64 } else { (((1u64) << (e as u32)) as i64).wrapping_neg() },
        4 => if e < 32 { ((1u64) << ((2 * e) as u32)) as i64 } else { 0 },
        i64::MIN => if e == 0 { 1 } else if e == 1 { i64::MIN } else { 0 },
        _ => unreachable!(),
    })
}
macro_rules! k_pow_const {
    ($name:ident, $base:expr) => {
        /// constant base, exponent symbolic over the whole of i64
        #[kani::proof]
        #[kani::unwind(66)]
        #[kani::stub(alloc::fmt::format, crate::verif_common::stub_format)]
        pub fn $name() {
            let e: i64 = kani::any();
            let r = pow::exec(Variable::Int($base), Variable::Int(e));
            assert!(agrees(&r, spec_pow_const($base, e)));
            kani::cover!(r.is_ok() && e > u32::MAX as i64);
            kani::cover!(r.is_err());
        }
    };
}
k_pow_const!(k_pow_base0, 0);
k_pow_const!(k_pow_base1, 1);
k_pow_const!(k_pow_basem1, -1);
k_pow_const!(k_pow_base2, 2);
k_pow_const!(k_pow_basem2, -2);
k_pow_const!(k_pow_base4, 4);
k_pow_const!(k_pow_basemin, i64::MIN);

/// symbolic 8-bit base (sign-extended), exponent 0..=9 against repeated multiplication in i128
/// truncated to 64 bits: 127^9 > 2^62, (-128)^9 = -2^63 exercise the wrap-around boundary
#[kani::proof]
#[kani::unwind(12)]
#[kani::stub(alloc::fmt::format, crate::verif_common::stub_format)]
pub fn k_pow_narrow_base() {
    let b8: i8 = kani::any();
    let b = b8 as i64;
    let mut e = 0i64;
    let mut expect: i128 = 1;
    while e <= 9 {
        let r = pow::exec(Variable::Int(b), Variable::Int(e));
        assert!(matches!(r, Ok(Variable::Int(x)) if x == trunc(expect)));
        expect = trunc(expect) as i128 * b as i128;
        e += 1;
    }
    kani::cover!(b8 == i8::MIN);
}
/// negative exponent is the only failure, for every base
#[kani::proof]
#[kani::unwind(4)]
#[kani::stub(alloc::fmt::format, crate::verif_common::stub_format)]
pub fn k_pow_error_iff_negative() {
    let b: i64 = kani::any();
    let e: i64 = kani::any();
    kani::assume(e < 2); // loop bound; the non-negative side is covered by the other pow harnesses
    let r = pow::exec(Variable::Int(b), Variable::Int(e));
    assert!(r.is_err() == (e < 0));
    if let Err(err) = &r {
        assert!(matches!(err, ExecError::NegativeExponent));
    }
    kani::cover!(r.is_err());
    kani::cover!(r.is_ok());
}

// ---- unary -------------------------------------------------------------------------------
#[kani::proof]
#[kani::unwind(3)]
#[kani::stub(alloc::fmt::format, crate::verif_common::stub_format)]
pub fn k_neg_not_int() {
    let a: i64 = kani::any();
    assert!(as_int(&unary_minus::exec(Variable::Int(a))) == Some(spec_neg(a)));
    assert!(as_int(&not::exec(Variable::Int(a))) == Some(spec_not(a)));
    let p: bool = kani::any();
    assert!(as_bool(&not::exec(Variable::Bool(p))) == Some(if p { false } else { true }));
    kani::cover!(a == i64::MIN);
}

// ---- bool --------------------------------------------------------------------------------
#[kani::proof]
#[kani::unwind(3)]
#[kani::stub(alloc::fmt::format, crate::verif_common::stub_format)]
pub fn k_bool_ops() {
    let (p, q): (bool, bool) = (kani::any(), kani::any());
    let tt = |x: Variable| as_bool(&x);
    assert!(tt(bitwise_and::exec(Variable::Bool(p), Variable::Bool(q))) == Some(if p { q } else { false }));
    assert!(tt(bitwise_or::exec(Variable::Bool(p), Variable::Bool(q))) == Some(if p { true } else { q }));
    assert!(tt(xor::exec(Variable::Bool(p), Variable::Bool(q))) == Some(if p { !q } else { q }));
    assert!(tt(equal::exec(Variable::Bool(p), Variable::Bool(q))) == Some(if p { q } else { !q }));
    assert!(tt(not_equal::exec(Variable::Bool(p), Variable::Bool(q))) == Some(if p { !q } else { q }));
    kani::cover!(p && !q);
}

// ---- floats ------------------------------------------------------------------------------
macro_rules! k_float_arith {
    ($name:ident, $kernel:expr, $op:tt) => {
        #[kani::proof]
        #[kani::unwind(3)]
        #[kani::stub(alloc::fmt::format, crate::verif_common::stub_format)]
        pub fn $name() {
            let (a, b): (f64, f64) = (kani::any(), kani::any());
            let r: Variable = ($kernel)(Variable::Float(a), Variable::Float(b));
            let x = as_float(&r);
            assert!(x.is_some());
            assert!(same_f64(x.unwrap(), a $op b));
            kani::cover!(x.unwrap().is_nan());
            kani::cover!(x.unwrap() == 0.0 && x.unwrap().is_sign_negative());
        }
    };
}
k_float_arith!(k_add_float, add::exec, +);
k_float_arith!(k_sub_float, subtract::exec, -);
k_float_arith!(k_mul_float, multiply::exec, *);
/// float `/`: IEEE-754 special-case lemmas on the *returned* value (a second symbolic FP divider
/// as oracle does not finish): NaN propagation, sign rule, division by zero and by infinity,
/// x / 1 == x, and the defining rounding bracket q*b ~ a is left to the FP unit (trusted: the
/// kernel is the Rust primitive `/`, confirmed by the table harnesses' kernel identity)
#[kani::proof]
#[kani::unwind(3)]
#[kani::stub(alloc::fmt::format, crate::verif_common::stub_format)]
pub fn k_div_float() {
    let (a, b): (f64, f64) = (kani::any(), kani::any());
    let r = divide::exec(Variable::Float(a), Variable::Float(b));
    let q = match r { Ok(Variable::Float(q)) => q, _ => panic!("float / float is not a float") };
    if a.is_nan() || b.is_nan() { assert!(q.is_nan()); }
    else if a.is_infinite() && b.is_infinite() { assert!(q.is_nan()); }
    else if a == 0.0 && b == 0.0 { assert!(q.is_nan()); }
    else {
        assert!(!q.is_nan());
        assert!(q.is_sign_negative() == (a.is_sign_negative() != b.is_sign_negative()));
        if b == 0.0 { assert!(q.is_infinite()); }
        if b.is_infinite() { assert!(q == 0.0); }
        if a.is_infinite() { assert!(q.is_infinite()); }
        if a == 0.0 { assert!(q == 0.0); }
    }
    if b == 1.0 { assert!(same_f64(q, a)); }
    kani::cover!(q.is_nan());
    kani::cover!(q.is_infinite() && b == 0.0);
}

macro_rules! k_float_cmp {
    ($name:ident, $kernel:expr, $op:tt) => {
        #[kani::proof]
        #[kani::unwind(3)]
        #[kani::stub(alloc::fmt::format, crate::verif_common::stub_format)]
        pub fn $name() {
            let (a, b): (f64, f64) = (kani::any(), kani::any());
            let r: Variable = ($kernel)(Variable::Float(a), Variable::Float(b));
            assert!(as_bool(&r) == Some(a $op b));
            // IEEE lemmas restated independently of the primitive
            if a.is_nan() || b.is_nan() {
                assert!(as_bool(&r) == Some(stringify!($op) == "!="));
            }
            if a == 0.0 && b == 0.0 {
                // signed zeros compare equal
                assert!(as_bool(&r) == Some(matches!(stringify!($op), "==" | "<=" | ">=")));
            }
            kani::cover!(a.is_nan());
            kani::cover!(a == 0.0 && b == 0.0 && a.is_sign_negative() != b.is_sign_negative());
        }
    };
}
k_float_cmp!(k_lt_float, lower::exec, <);
k_float_cmp!(k_le_float, lower_equal::exec, <=);
k_float_cmp!(k_gt_float, greater::exec, >);
k_float_cmp!(k_ge_float, greater_equal::exec, >=);
k_float_cmp!(k_eq_float, equal::exec, ==);
k_float_cmp!(k_ne_float, not_equal::exec, !=);

#[kani::proof]
#[kani::unwind(3)]
#[kani::stub(alloc::fmt::format, crate::verif_common::stub_format)]
pub fn k_neg_float() {
    let a: f64 = kani::any();
    let r = unary_minus::exec(Variable::Float(a));
    let x = as_float(&r).unwrap();
    // IEEE negation flips the sign bit and nothing else (also for NaN and zeros)
    assert!(x.to_bits() == a.to_bits() ^ (1u64 << 63));
    kani::cover!(a == 0.0);
}
/// float division never raises, also for a zero divisor of either sign
#[kani::proof]
#[kani::unwind(3)]
#[kani::stub(alloc::fmt::format, crate::verif_common::stub_format)]
pub fn k_div_float_total() {
    let (a, b): (f64, f64) = (kani::any(), kani::any());
    let r = divide::exec(Variable::Float(a), Variable::Float(b));
    assert!(r.is_ok());
    kani::cover!(b == 0.0);
}
