//@ inject: src/instruction.rs
//@ modname: verif_c02
//@ property: C02
//@ tier: quick

//! C02 extras (the bulk of C02 is the panic-freedom reading of the C01 / C12 / C08-fold harnesses,
//! which this check also runs): break / continue / return cannot escape their construct.
use super::*;
use crate::instruction::local_variable::{FunctionInfo, LocalVariableMap, LocalVariables};
use crate::instruction::r#loop::Loop;
use crate::unary_operator::UnaryOperator;
use crate::verif_common::*;
use crate::verif_model::Arc;

fn iws(i: Instruction) -> InstructionWithStr {
    InstructionWithStr { instruction: i, str: "e".into() }
}

/// the checker's "inside a loop" flag does not leak into a function body defined inside the loop
/// (otherwise `break` would be accepted there and escape the function at run time), but does carry
/// into nested blocks / layers of the same function
#[kani::proof]
#[kani::unwind(3)]
#[kani::stub(alloc::fmt::format, crate::verif_common::stub_format)]
pub fn in_loop_flag_stops_at_function_boundary() {
    let interp = Interpreter::without_stdlib();
    let mut outer = LocalVariables::new(&interp);
    outer.in_loop = true;
    {
        let inner = outer.create_layer();
        assert!(inner.in_loop);
        std::mem::forget(inner);
    }
    {
        let f = outer.function_layer(LocalVariableMap::new(), FunctionInfo::new(None, Type::Void));
        assert!(!f.in_loop);
        assert!(f.function().is_some());
        std::mem::forget(f);
    }
    outer.in_loop = false;
    {
        let f = outer.function_layer(LocalVariableMap::new(), FunctionInfo::new(None, Type::Int));
        assert!(!f.in_loop);
        std::mem::forget(f);
    }
    std::mem::forget(outer);
    kani::cover!(true);
}

/// a loop turns `break` / `continue` of its body into its own exit / next iteration and never lets
/// them out; `return` and errors pass through; a function turns `return` into its value
#[kani::proof]
#[kani::unwind(4)]
#[kani::stub(alloc::fmt::format, crate::verif_common::stub_format)]
pub fn control_signals_do_not_escape() {
    {
        use crate::instruction::verif_gate::*;
        allow_binops(0);
        allow_unops(u(UnaryOperator::Return));
        allow_mask((1 << K_VARIABLE) | (1 << K_UNARYOPERATION) | (1 << K_LOOP));
    }
    let x: i64 = kani::any();
    let mut interp = Interpreter::without_stdlib();
    let l1 = Loop(iws(Instruction::Break));
    assert!(matches!(l1.exec(&mut interp), Ok(Variable::Void)));
    let ret: Instruction = UnaryOperation { instruction: Instruction::Variable(Variable::Int(x)), op: UnaryOperator::Return }.into();
    let l2 = Loop(iws(ret.clone()));
    assert!(matches!(l2.exec(&mut interp), Err(ExecStop::Return(Variable::Int(v))) if v == x));
    // (inside a function the return is consumed, whatever loop it came out of: C12 return_leaves_innermost_function,
    //  which this check also runs - one harness with both did not finish in 600 s)
    kani::cover!(true);
}
