//@ inject: src/instruction/at.rs
//@ modname: verif_c09_at
//@ property: C09
//@ tier: quick

//! C09 (indexing + len): for every sequence of concrete length n <= 4 (arrays incl. mixed element
//! kinds; ASCII and multi-byte strings) and EVERY i64 index:
//!   s[i] succeeds  <=>  -n <= i < n ; then it is element (i mod n); else IndexOutOfBounds;
//!   std.len(s) == n (chars, not bytes); the folding path agrees.
use super::*;
use crate::stdlib::len;
use crate::{BinOperator, ExecError};
use crate::variable::{Type, Variable};
use crate::instruction::{BinOperation, Instruction};
use crate::instruction::array::Array as ArrayIns;
use crate::instruction::InstructionWithStr;
use crate::verif_common::*;
use crate::verif_model::Arc;

/// element k of the reference array: distinct ints, a float and a string so that a wrong element
/// cannot be mistaken for the right one
fn elem(k: usize) -> Variable {
    match k {
        0 => Variable::Int(10),
        1 => Variable::Float(1.5),
        2 => Variable::Int(30),
        _ => Variable::Int(40 + k as i64),
    }
}
fn is_elem(v: &Variable, k: usize) -> bool {
    match (k, v) {
        (0, Variable::Int(10)) => true,
        (1, Variable::Float(f)) => *f == 1.5,
        (2, Variable::Int(30)) => true,
        (k, Variable::Int(x)) if k >= 3 => *x == 40 + k as i64,
        _ => false,
    }
}
fn arr(n: usize) -> Variable {
    let mut v = Vec::new();
    let mut k = 0;
    while k < n {
        v.push(elem(k));
        k += 1;
    }
    Variable::Array(Arc::new(crate::variable::Array::new_with_type(Type::Any, v.into())))
}

/// documented position: Some(k) iff -n <= i < n
fn spec_pos(n: usize, i: i64) -> Option<usize> {
    let n128 = n as i128;
    let i128_ = i as i128;
    if i128_ >= 0 && i128_ < n128 {
        Some(i128_ as usize)
    } else if i128_ < 0 && i128_ >= -n128 {
        Some((n128 + i128_) as usize)
    } else {
        None
    }
}

macro_rules! at_array {
    ($name:ident, $n:expr) => {
        #[kani::proof]
        #[kani::unwind(7)]
        #[kani::stub(alloc::fmt::format, crate::verif_common::stub_format)]
        pub fn $name() {
            let i: i64 = kani::any();
            let s = arr($n);
            assert!(len(&s) == $n);
            let r = exec(s, Variable::Int(i));
            match spec_pos($n, i) {
                Some(k) => match &r {
                    Ok(v) => assert!(is_elem(v, k)),
                    Err(_) => panic!("in-range index rejected"),
                },
                None => assert!(matches!(r, Err(ExecError::IndexOutOfBounds))),
            }
            kani::cover!(r.is_ok() || $n == 0);
            kani::cover!(r.is_err());
            kani::cover!(i < 0 && (r.is_ok() || $n == 0));
        }
    };
}
at_array!(at_array_len0, 0);
at_array!(at_array_len1, 1);
at_array!(at_array_len2, 2);
at_array!(at_array_len3, 3);
at_array!(at_array_len4, 4);

/// the k-th char of the reference strings, as the string s[k] must evaluate to
fn str_case(which: u8) -> (&'static str, usize, [&'static str; 4]) {
    match which {
        0 => ("", 0, ["", "", "", ""]),
        1 => ("abc", 3, ["a", "b", "c", ""]),
        // 1-, 2-, 3- and 4-byte scalar values: 4 chars, 10 bytes
        2 => ("a\u{e9}\u{20ac}\u{1f600}", 4, ["a", "\u{e9}", "\u{20ac}", "\u{1f600}"]),
        _ => ("\u{e9}a", 2, ["\u{e9}", "a", "", ""]),
    }
}
fn str_eq(v: &Variable, want: &str) -> bool {
    match v {
        Variable::String(s) => {
            let (a, b) = (s.as_bytes(), want.as_bytes());
            if a.len() != b.len() {
                return false;
            }
            let mut k = 0;
            while k < a.len() {
                if a[k] != b[k] {
                    return false;
                }
                k += 1;
            }
            true
        }
        _ => false,
    }
}

macro_rules! at_string {
    ($name:ident, $which:expr) => {
        #[kani::proof]
        #[kani::unwind(12)]
        #[kani::stub(alloc::fmt::format, crate::verif_common::stub_format)]
        pub fn $name() {
            let i: i64 = kani::any();
            let (text, n, chars) = str_case($which);
            let s = Variable::String(text.into());
            assert!(len(&s) == n);
            let r = exec(s, Variable::Int(i));
            match spec_pos(n, i) {
                Some(k) => match &r {
                    Ok(v) => assert!(str_eq(v, chars[k])),
                    Err(_) => panic!("in-range index rejected"),
                },
                None => assert!(matches!(r, Err(ExecError::IndexOutOfBounds))),
            }
            kani::cover!(r.is_ok() || n == 0);
            kani::cover!(r.is_err());
        }
    };
}
at_string!(at_string_empty, 0);
at_string!(at_string_ascii, 1);
at_string!(at_string_multibyte, 2);
at_string!(at_string_multibyte_first, 3);

/// folding path: constant sequence + constant index folds to exactly what exec gives;
/// array *literal* with a constant index is rejected at fold time iff the index is out of range
#[kani::proof]
#[kani::unwind(7)]
#[kani::stub(alloc::fmt::format, crate::verif_common::stub_format)]
pub fn at_fold_constant() {
    let i: i64 = kani::any();
    let n = 3;
    let r = create_from_instructions(Instruction::Variable(arr(n)), Instruction::Variable(Variable::Int(i)));
    match spec_pos(n, i) {
        Some(k) => assert!(matches!(&r, Ok(Instruction::Variable(v)) if is_elem(v, k))),
        None => assert!(matches!(r, Err(ExecError::IndexOutOfBounds))),
    }
    kani::cover!(r.is_ok());
    kani::cover!(r.is_err());
}
macro_rules! at_fold_literal {
    ($name:ident, $n:expr) => {
        #[kani::proof]
        #[kani::unwind(7)]
        #[kani::stub(alloc::fmt::format, crate::verif_common::stub_format)]
        pub fn $name() {
            let i: i64 = kani::any();
            let n: usize = $n;
            // array literal whose elements are not constants (locals)
            let mut ins = Vec::new();
            let mut k = 0;
            while k < n {
                ins.push(InstructionWithStr { instruction: local("x", Type::Int), str: "x".into() });
                k += 1;
            }
            let lit = ArrayIns { instructions: ins.into(), element_type: Type::Int };
            let r = create_from_instructions(Instruction::from(lit), Instruction::Variable(Variable::Int(i)));
            match spec_pos(n, i) {
                // in range: must stay an executable indexing operation
                Some(_) => assert!(matches!(&r, Ok(Instruction::BinOperation(b)) if matches!(b.op, BinOperator::At))),
                // out of range: fails whenever evaluated, so a parse-time error is permitted;
                // keeping it as an operation (failing later at run time) would be fine too
                None => assert!(matches!(&r, Err(ExecError::IndexOutOfBounds)) || matches!(&r, Ok(Instruction::BinOperation(_)))),
            }
            kani::cover!(r.is_ok());
            kani::cover!(r.is_err());
        }
    };
}
at_fold_literal!(at_fold_literal_len1, 1);
at_fold_literal!(at_fold_literal_len3, 3);
