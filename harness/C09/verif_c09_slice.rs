//@ inject: src/instruction/slicing.rs
//@ modname: verif_c09_slice
//@ property: C09
//@ tier: quick

//! C09 (slicing): for every sequence of concrete length n <= 4 and EVERY (start, stop, step) in
//! Option<i64>^3:  s[start:stop:step] never fails, has the kind of s, and selects exactly the
//! elements Python's slice selects (empty when step == 0).
use super::*;
use crate::instruction::Instruction;
use crate::verif_common::*;
use crate::verif_model::Arc;

// all elements are ints (distinct): the slice selects elements through a symbolic index, and a
// merge of elements of different kinds makes CBMC walk every arm of `Variable::as_type` when the
// result array computes its element type (mixed-kind arrays are covered by the indexing harnesses)
fn elem(k: usize) -> Variable {
    Variable::Int(10 * (k as i64 + 1))
}
fn is_elem(v: &Variable, k: usize) -> bool {
    matches!(v, Variable::Int(x) if *x == 10 * (k as i64 + 1))
}
fn arr(n: usize) -> Variable {
    let mut v = Vec::new();
    let mut k = 0;
    while k < n {
        v.push(elem(k));
        k += 1;
    }
    Variable::Array(Arc::new(crate::variable::Array::new_with_type(Type::Any, v.into())))
}

/// Python's slice.indices(n) followed by range(start, stop, step), as (first, count, step);
/// written with mathematical (i128) integers.  step == 0 selects nothing (SimpleSL's rule).
pub fn py_slice(n: usize, start: Option<i64>, stop: Option<i64>, step: Option<i64>) -> (i128, usize, i128) {
    let n = n as i128;
    let step = match step { Some(s) => s as i128, None => 1 };
    if step == 0 {
        return (0, 0, 0);
    }
    let (lower, upper) = if step > 0 { (0, n) } else { (-1, n - 1) };
    let clampi = |x: Option<i64>, dflt: i128| -> i128 {
        match x {
            None => dflt,
            Some(x) => {
                let x = x as i128;
                if x < 0 {
                    let y = x + n;
                    if y < lower { lower } else { y }
                } else if x > upper { upper } else { x }
            }
        }
    };
    let first = clampi(start, if step > 0 { lower } else { upper });
    let last = clampi(stop, if step > 0 { upper } else { lower });
    // count without division: at most n elements, walk
    let mut cnt = 0usize;
    let mut i = first;
    while (step > 0 && i < last) || (step < 0 && i > last) {
        cnt += 1;
        i += step;
    }
    (first, cnt, step)
}

fn const_ins(v: Variable) -> InstructionWithStr {
    InstructionWithStr { instruction: Instruction::Variable(v), str: "c".into() }
}
fn opt_ins(x: Option<i64>) -> Option<InstructionWithStr> {
    match x {
        Some(v) => Some(const_ins(Variable::Int(v))),
        None => None,
    }
}

fn declare() {
    use crate::instruction::verif_gate::*;
    allow_binops(0);
    allow_unops(0);
    allow_mask(1 << K_VARIABLE);
    // the sliced sequences hold scalars only: no compound value needs its type computed
    crate::variable::verif_valgate::allow_vals(0);
    // the stored element type of the result (a fold of Type::concat over the elements' types) is not the
    // subject of C09 - it is judged by C01's sound_slicing; here it is stubbed to `any`
    crate::variable::verif_valgate::stub_element_type(true);
}
/// presence of start / stop / step is enumerated concretely (mask bits 0,1,2): a symbolic
/// `Option<InstructionWithStr>` would merge two instruction shapes; the present bounds are
/// full-width symbolic ints
fn bounds(mask: u8) -> (Option<i64>, Option<i64>, Option<i64>) {
    (
        if mask & 1 != 0 { Some(kani::any()) } else { None },
        if mask & 2 != 0 { Some(kani::any()) } else { None },
        if mask & 4 != 0 { Some(kani::any()) } else { None },
    )
}
fn slice_array_case(n: usize, mask: u8) {
    declare();
    let (start, stop, step) = bounds(mask);
    let ins = Slicing { lhs: const_ins(arr(n)), start: opt_ins(start), stop: opt_ins(stop), step: opt_ins(step) };
    let mut interp = Interpreter::without_stdlib();
    let r = ins.exec(&mut interp);
    let (first, cnt, st) = py_slice(n, start, stop, step);
    match r {
        Ok(Variable::Array(a)) => {
            assert!(a.len() == cnt);
            let mut k = 0;
            while k < cnt {
                let idx = (first + (k as i128) * st) as usize;
                assert!(is_elem(&a[k], idx));
                k += 1;
            }
        }
        Ok(_) => panic!("slice of an array is not an array"),
        Err(_) => panic!("slicing failed"),
    }
}
macro_rules! slice_array {
    ($name:ident, $n:expr, $($mask:expr),*) => {
        #[kani::proof]
        #[kani::unwind(7)]
        #[kani::stub(alloc::fmt::format, crate::verif_common::stub_format)]
        pub fn $name() {
            $( slice_array_case($n, $mask); )*
            kani::cover!(true);
        }
    };
}
slice_array!(slice_array_len0, 0, 0, 7);
slice_array!(slice_array_len1, 1, 0, 1, 2, 4, 7);
slice_array!(slice_array_len2_a, 2, 0, 1, 2, 3);
slice_array!(slice_array_len2_b, 2, 4, 5, 6, 7);
slice_array!(slice_array_len3_a, 3, 3, 4);
slice_array!(slice_array_len3_b, 3, 5, 6);
slice_array!(slice_array_len3_c, 3, 7);
slice_array!(slice_array_len4_a, 4, 4);
slice_array!(slice_array_len4_b, 4, 7);

/// the same slices after the constant-folding pass (`Slicing::recreate` sees constant bounds whose values
/// are symbolic): folding must not change which elements are selected
fn slice_array_folded_case(n: usize, mask: u8) {
    declare();
    {
        use crate::instruction::verif_gate::*;
        allow_mask((1 << K_VARIABLE) | (1 << K_SLICING));
    }
    let (start, stop, step) = bounds(mask);
    let ins = Slicing { lhs: const_ins(arr(n)), start: opt_ins(start), stop: opt_ins(stop), step: opt_ins(step) };
    let interp0 = Interpreter::without_stdlib();
    let mut lv = crate::instruction::local_variable::LocalVariables::new(&interp0);
    let folded = match crate::instruction::Recreate::recreate(&ins, &mut lv) {
        Ok(i) => i,
        Err(_) => panic!("folding a slice failed"),
    };
    std::mem::forget(lv);
    let mut interp = Interpreter::without_stdlib();
    let r = folded.exec(&mut interp);
    let (first, cnt, st) = py_slice(n, start, stop, step);
    match r {
        Ok(Variable::Array(a)) => {
            assert!(a.len() == cnt);
            let mut k = 0;
            while k < cnt {
                let idx = (first + (k as i128) * st) as usize;
                assert!(is_elem(&a[k], idx));
                k += 1;
            }
        }
        Ok(_) => panic!("slice of an array is not an array"),
        Err(_) => panic!("slicing failed"),
    }
}
macro_rules! slice_array_folded {
    ($(#[$m:meta])* $name:ident, $n:expr, $($mask:expr),*) => {
        $(#[$m])*
        #[kani::proof]
        #[kani::unwind(7)]
        #[kani::stub(alloc::fmt::format, crate::verif_common::stub_format)]
        pub fn $name() {
            $( slice_array_folded_case($n, $mask); )*
            kani::cover!(true);
        }
    };
}
#[cfg(feature = "verif_experimental")] // 1500 s timeout at 9.6 GB
slice_array_folded!(slice_array_folded_len2, 2, 7);
#[cfg(feature = "verif_experimental")] // 1500 s timeout at 9.6 GB
slice_array_folded!(slice_array_folded_len3, 3, 5);

/// what a slice yields is a sequence of the sliced kind: the value belongs (by contents) to the static type
/// the checker computes for the slice expression (C01's clause for this construct, cheap enough to be decided
/// here; the stored element type of the result is stubbed in this file, so the tag is not compared)
#[cfg(feature = "verif_experimental")] // no verdict after 17 min
#[kani::proof]
#[kani::unwind(7)]
#[kani::stub(alloc::fmt::format, crate::verif_common::stub_format)]
pub fn slice_result_inhabits_static_type() {
    declare();
    // the static type of the slice is computed from the array value's own type
    crate::variable::verif_valgate::allow_vals(1 << crate::variable::verif_valgate::V_ARRAY);
    let (start, stop, step) = bounds(7);
    // an array whose declared element type is int: the slice has static type [int]
    let ints = Variable::Array(Arc::new(crate::variable::Array::new_with_type(Type::Int, Arc::from(crate::vv![Variable::Int(kani::any()), Variable::Int(kani::any())]))));
    let ins = Slicing { lhs: const_ins(ints), start: opt_ins(start), stop: opt_ins(stop), step: opt_ins(step) };
    let static_type = crate::variable::ReturnType::return_type(&ins);
    assert!(matches!(static_type, Type::Array(_)));
    let mut interp = Interpreter::without_stdlib();
    match ins.exec(&mut interp) {
        Ok(v) => assert!(in_type(&v, &static_type)),
        Err(_) => panic!("slicing failed"),
    }
    kani::cover!(true);
}

fn str_case(which: u8) -> (&'static str, usize, [&'static str; 4]) {
    match which {
        0 => ("", 0, ["", "", "", ""]),
        1 => ("abc", 3, ["a", "b", "c", ""]),
        _ => ("a\u{e9}\u{20ac}\u{1f600}", 4, ["a", "\u{e9}", "\u{20ac}", "\u{1f600}"]),
    }
}

fn slice_string_case(which: u8, mask: u8) {
    declare();
    let (start, stop, step) = bounds(mask);
    let (text, n, chars) = str_case(which);
    let ins = Slicing { lhs: const_ins(Variable::String(text.into())), start: opt_ins(start), stop: opt_ins(stop), step: opt_ins(step) };
    let mut interp = Interpreter::without_stdlib();
    let r = ins.exec(&mut interp);
    let (first, cnt, st) = py_slice(n, start, stop, step);
    match r {
        Ok(Variable::String(s)) => {
            // expected text = concatenation of the selected chars
            let got = s.as_bytes();
            let mut pos = 0usize;
            let mut k = 0;
            while k < cnt {
                let idx = (first + (k as i128) * st) as usize;
                let want = chars[idx].as_bytes();
                let mut j = 0;
                while j < want.len() {
                    assert!(pos < got.len() && got[pos] == want[j]);
                    pos += 1;
                    j += 1;
                }
                k += 1;
            }
            assert!(pos == got.len());
        }
        Ok(_) => panic!("slice of a string is not a string"),
        Err(_) => panic!("slicing failed"),
    }
}
macro_rules! slice_string {
    ($name:ident, $which:expr, $($mask:expr),*) => {
        #[kani::proof]
        #[kani::unwind(12)]
        #[kani::stub(alloc::fmt::format, crate::verif_common::stub_format)]
        pub fn $name() {
            $( slice_string_case($which, $mask); )*
            kani::cover!(true);
        }
    };
}
// non-empty strings: the result String is built by pushing chars selected through a symbolic index;
// CBMC's memcpy model needed > 30 GB without reaching a verdict.  The selection arithmetic is the same
// slyce call as for arrays (decided above); what is string specific - chars() and len in chars - is
// decided by the indexing harnesses.
// multi-byte strings: a slice pushes chars selected by a symbolic index; with chars of different UTF-8
// widths the pushes have symbolic lengths and CBMC's memcpy model exhausted memory (18 GB, no verdict).
// Strings with multi-byte characters are covered for indexing and len (verif_c09_at.rs); slicing works on
// the char array, independent of the encoded width.
