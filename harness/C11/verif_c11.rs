//@ inject: src/instruction.rs
//@ modname: verif_c11
//@ property: C11
//@ tier: quick

//! C11 - the iterator operators whose implementation is a Rust loop over the iterator function
//! (`it $]` = collect::exec, `it \ p` = partition::exec, `it $ init f` = Reduce::exec) equal their
//! sequence definitions.  The iterator, the predicate and the folding function are function values
//! whose bodies are hand-built SimpleSL instructions (what user-written ones compile to): the
//! iterator yields x1..xn (n concrete 0..=3, every xi a symbolic i64), then (false, 0) once, and
//! fails if pulled again; its state cell counts how often it was advanced.
//! (Native `Body::Native` callbacks were tried first: CBMC does not finish - a call through the
//! function pointer stored in a heap `Function` object is explored for every native of the crate.)
//! The operators implemented as SimpleSL source (`@ ? ~ $+ $* $& $| $&& $|| ? T`) need the parser
//! and are outside (see check.json).
use super::*;
use crate::function::{Body, Function, Param, Params};
use crate::instruction::bin_op::partition;
use crate::instruction::reduce::{collect, Reduce};
use crate::verif_common::*;
use crate::verif_model::Arc;
use crate::BinOperator;

/// number of elements the iterator under test has handed out so far (= content of its cell + 1)
fn advanced(pos: &Arc<crate::variable::Mut>) -> i64 {
    match cell_int(pos) {
        Some(p) => p + 1,
        None => panic!("iterator state is not an int"),
    }
}
fn pair(c: bool, x: i64) -> Variable {
    Variable::Tuple(Arc::from(crate::vv![Variable::Bool(c), Variable::Int(x)]))
}
fn iws(i: Instruction) -> InstructionWithStr {
    InstructionWithStr { instruction: i, str: "e".into() }
}
fn ret(i: Instruction) -> Instruction {
    UnaryOperation { instruction: i, op: crate::unary_operator::UnaryOperator::Return }.into()
}
fn param(name: &'static str, t: Type) -> Param {
    Param { name: name.into(), var_type: t }
}
fn iter_type() -> Type {
    Type::Tuple(crate::vv![Type::Bool, Type::Int].into())
}
/// The iterator, written as SimpleSL instructions (what a user-written iterator compiles to):
///   pos := mut -1 ;  () -> (bool, int) { return ITEMS[pos += 1] }
/// with ITEMS = [(true, x1), .., (true, xn), (false, 0)]: pulling it more than n+1 times is an
/// IndexOutOfBounds error (so "pulled too often" cannot go unnoticed).
fn the_iterator(n: usize) -> (Variable, [i64; 3], Arc<crate::variable::Mut>) {
    let xs: [i64; 3] = [kani::any(), kani::any(), kani::any()];
    let mut items = crate::vv![];
    let mut i = 0;
    while i < n {
        items.push(pair(true, xs[i]));
        i += 1;
    }
    items.push(pair(false, 0));
    let items = Variable::Array(Arc::new(crate::variable::Array::new_with_type(iter_type(), Arc::from(items))));
    let pos = new_cell(Type::Int, Variable::Int(-1));
    let bump: Instruction = BinOperation { lhs: Instruction::Variable(Variable::Mut(pos.clone())), rhs: Instruction::Variable(Variable::Int(1)), op: BinOperator::AssignAdd }.into();
    let item: Instruction = BinOperation { lhs: Instruction::Variable(items), rhs: bump, op: BinOperator::At }.into();
    let f = Function { ident: None, params: Params(Arc::from(Vec::<Param>::new())), body: Body::Lang(Arc::from(crate::vv![iws(ret(item))])), return_type: iter_type() };
    (Variable::Function(Arc::new(f)), xs, pos)
}
/// predicate p(x) = x > t   as   (x: int) -> bool { return x > t }
fn above(t: i64) -> Variable {
    let cmp: Instruction = BinOperation { lhs: local("x", Type::Int), rhs: Instruction::Variable(Variable::Int(t)), op: BinOperator::Greater }.into();
    Variable::Function(Arc::new(Function { ident: None, params: Params(Arc::from(crate::vv![param("x", Type::Int)])), body: Body::Lang(Arc::from(crate::vv![iws(ret(cmp))])), return_type: Type::Bool }))
}
/// folding function f(acc, x) = acc - x  (neither commutative nor associative)
fn step() -> Variable {
    let sub: Instruction = BinOperation { lhs: local("acc", Type::Int), rhs: local("x", Type::Int), op: BinOperator::Subtract }.into();
    Variable::Function(Arc::new(Function { ident: None, params: Params(Arc::from(crate::vv![param("acc", Type::Int), param("x", Type::Int)])), body: Body::Lang(Arc::from(crate::vv![iws(ret(sub))])), return_type: Type::Int }))
}
fn spec_step(acc: i64, x: i64) -> i64 {
    acc.wrapping_sub(x)
}
fn declare() {
    use crate::instruction::verif_gate::*;
    allow_mask((1 << K_VARIABLE) | (1 << K_BINOPERATION) | (1 << K_UNARYOPERATION));
    allow_binops(b(BinOperator::At) | b(BinOperator::AssignAdd) | b(BinOperator::Greater) | b(BinOperator::Subtract));
    allow_unops(u(crate::unary_operator::UnaryOperator::Return));
    // function body (depth 0) = return > at | comparison | subtraction > operands / `+=` > operands
    allow_at(0, (1 << K_UNARYOPERATION) | (1 << K_VARIABLE), u64::MAX);
    allow_at(1, 1 << K_BINOPERATION, u64::MAX);
    allow_at(2, (1 << K_VARIABLE) | (1 << K_BINOPERATION), u64::MAX);
    allow_at(3, 1 << K_VARIABLE, u64::MAX);
    use crate::variable::verif_valgate::*;
    allow_vals((1 << V_FUNCTION) | (1 << V_TUPLE) | (1 << V_ARRAY) | (1 << V_MUT));
}
fn arr_is(v: &Variable, xs: &[i64]) -> bool {
    match v {
        Variable::Array(a) => {
            if a.len() != xs.len() {
                return false;
            }
            let mut i = 0;
            while i < xs.len() {
                if as_int(&a[i]) != Some(xs[i]) {
                    return false;
                }
                i += 1;
            }
            true
        }
        _ => false,
    }
}

/// `it $]` is [x1..xn]; the iterator is advanced exactly n+1 times (up to its first `false`)
fn collect_n(n: usize) {
    declare();
    crate::verif_model::set_order(0);
    let (it, xs, pos) = the_iterator(n);
    let static_type = collect::return_type(it.as_type());
    let mut interp = Interpreter::without_stdlib();
    let r = match collect::exec(it, &mut interp) {
        Ok(v) => v,
        Err(_) => panic!("collect failed"),
    };
    assert!(arr_is(&r, &xs[..n]));
    assert!(advanced(&pos) == n as i64 + 1);
    // C01 reading for this operator: the array belongs to the static type [int]
    assert!(sound(&r, &static_type));
}
macro_rules! collect_harness {
    ($name:ident, $n:expr) => {
        #[kani::proof]
        #[kani::unwind(6)]
        #[kani::stub(alloc::fmt::format, crate::verif_common::stub_format)]
        pub fn $name() { collect_n($n); kani::cover!(true); }
    };
}
collect_harness!(collect_len0, 0);
collect_harness!(collect_len1, 1);
collect_harness!(collect_len2, 2);
collect_harness!(collect_len3, 3);

/// `it \ p` is (those with p, those without), both in order
fn partition_n(n: usize) {
    declare();
    crate::verif_model::set_order(0);
    let (it, xs, pos) = the_iterator(n);
    let t: i64 = kani::any();
    let static_type = partition::return_type(it.as_type());
    let r = match partition::exec(it, above(t)) {
        Ok(v) => v,
        Err(_) => panic!("partition failed"),
    };
    // reference: stable two-way split
    let mut yes = [0i64; 3];
    let mut no = [0i64; 3];
    let (mut ny, mut nn) = (0, 0);
    let mut i = 0;
    while i < n {
        if xs[i] > t { yes[ny] = xs[i]; ny += 1; } else { no[nn] = xs[i]; nn += 1; }
        i += 1;
    }
    match &r {
        Variable::Tuple(parts) => {
            assert!(parts.len() == 2);
            assert!(arr_is(&parts[0], &yes[..ny]));
            assert!(arr_is(&parts[1], &no[..nn]));
        }
        _ => panic!("partition did not yield a pair"),
    }
    assert!(advanced(&pos) == n as i64 + 1);
    assert!(sound(&r, &static_type));
}
macro_rules! partition_harness {
    ($name:ident, $n:expr) => {
        #[kani::proof]
        #[kani::unwind(6)]
        #[kani::stub(alloc::fmt::format, crate::verif_common::stub_format)]
        pub fn $name() { partition_n($n); kani::cover!(true); }
    };
}
partition_harness!(partition_len0, 0);
partition_harness!(partition_len1, 1);
partition_harness!(partition_len2, 2);
partition_harness!(partition_len3, 3);

/// `it $ init f` is the left fold f(..f(f(init, x1), x2).., xn)
fn reduce_n(n: usize) {
    declare();
    crate::verif_model::set_order(0);
    let (it, xs, pos) = the_iterator(n);
    let init: i64 = kani::any();
    let ws = |v: Variable| InstructionWithStr { instruction: Instruction::Variable(v), str: "e".into() };
    let red = Reduce { iter: ws(it), initial_value: ws(Variable::Int(init)), function: ws(step()) };
    let mut interp = Interpreter::without_stdlib();
    let r = red.exec(&mut interp);
    let mut expect = init;
    let mut i = 0;
    while i < n {
        expect = spec_step(expect, xs[i]);
        i += 1;
    }
    assert!(matches!(r, Ok(Variable::Int(v)) if v == expect));
    assert!(advanced(&pos) == n as i64 + 1);
}
macro_rules! reduce_harness {
    ($name:ident, $n:expr) => {
        #[kani::proof]
        #[kani::unwind(6)]
        #[kani::stub(alloc::fmt::format, crate::verif_common::stub_format)]
        pub fn $name() { reduce_n($n); kani::cover!(true); }
    };
}
reduce_harness!(reduce_len0, 0);
reduce_harness!(reduce_len1, 1);
reduce_harness!(reduce_len2, 2);
reduce_harness!(reduce_len3, 3);
