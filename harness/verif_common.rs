//! Shared reference oracles ("spec") and builders used by the Kani harnesses.
//! Compiled only into the scratch copy (`#[cfg(kani)]`), never into /repo.
//! The oracles are written from docs/operators.md, independently of the implementation:
//! integer results are computed in i128 and truncated, division results are *checked* with the
//! division lemma instead of recomputed.
#![allow(dead_code)]
use crate::instruction::local_variable::{LocalVariable, LocalVariables};
use crate::instruction::Instruction;
use crate::variable::{Mut, Type, Variable};
use crate::verif_model::Arc;
use crate::{ExecError, Interpreter};
use std::sync::RwLock;

/// documented outcome of an integer binary operator
#[derive(Clone, Copy, PartialEq, Eq)]
pub enum Spec {
    Int(i64),
    Bool(bool),
    ZeroDivision,
    ZeroModulo,
    OverflowShift,
    NegativeExponent,
}

pub fn trunc(x: i128) -> i64 {
    x as i64
}

pub fn spec_add(a: i64, b: i64) -> Spec {
    Spec::Int(trunc(a as i128 + b as i128))
}
pub fn spec_sub(a: i64, b: i64) -> Spec {
    Spec::Int(trunc(a as i128 - b as i128))
}
pub fn spec_neg(a: i64) -> i64 {
    trunc(-(a as i128))
}
/// bitwise identities, bit by bit free: x&y etc. are primitive; we restate them through
/// De Morgan / arithmetic identities so that the oracle is not the same expression.
pub fn spec_and(a: i64, b: i64) -> Spec {
    Spec::Int(!(!a | !b))
}
pub fn spec_or(a: i64, b: i64) -> Spec {
    Spec::Int(!(!a & !b))
}
pub fn spec_xor(a: i64, b: i64) -> Spec {
    Spec::Int((a | b) & !(a & b))
}
pub fn spec_not(a: i64) -> i64 {
    trunc(-(a as i128) - 1)
}
pub fn spec_shl(a: i64, b: i64) -> Spec {
    if b < 0 || b > 63 {
        return Spec::OverflowShift;
    }
    // a * 2^b mod 2^64, via unsigned 128-bit shift then truncation
    Spec::Int((((a as u64) as u128) << (b as u32)) as u64 as i64)
}
pub fn spec_shr(a: i64, b: i64) -> Spec {
    if b < 0 || b > 63 {
        return Spec::OverflowShift;
    }
    // arithmetic shift = floor(a / 2^b): shift the sign-extended 128-bit value
    Spec::Int(((a as i128) >> (b as u32)) as i64)
}
pub fn spec_lt(a: i64, b: i64) -> Spec {
    Spec::Bool((a as i128) - (b as i128) < 0)
}
pub fn spec_le(a: i64, b: i64) -> Spec {
    Spec::Bool((a as i128) - (b as i128) <= 0)
}
pub fn spec_gt(a: i64, b: i64) -> Spec {
    Spec::Bool((a as i128) - (b as i128) > 0)
}
pub fn spec_ge(a: i64, b: i64) -> Spec {
    Spec::Bool((a as i128) - (b as i128) >= 0)
}
pub fn spec_eq(a: i64, b: i64) -> Spec {
    Spec::Bool((a as i128) - (b as i128) == 0)
}
pub fn spec_ne(a: i64, b: i64) -> Spec {
    Spec::Bool((a as i128) - (b as i128) != 0)
}

/// Division lemma: is `q` the documented quotient of a / b ? (b != 0)
/// trunc toward zero; MIN / -1 == MIN.  Checked on the *returned* q, no second divider.
pub fn is_quotient(a: i64, b: i64, q: i64) -> bool {
    if a == i64::MIN && b == -1 {
        return q == i64::MIN;
    }
    let (a, b, q) = (a as i128, b as i128, q as i128);
    let r = a - q * b;
    let absb = if b < 0 { -b } else { b };
    let absr = if r < 0 { -r } else { r };
    absr < absb && (r == 0 || (r < 0) == (a < 0))
}
/// is `r` the documented remainder of a % b ? (b != 0): sign of dividend, |r|<|b|, b | a-r
pub fn is_remainder(a: i64, b: i64, r: i64, q_witness: i64) -> bool {
    if a == i64::MIN && b == -1 {
        return r == 0;
    }
    let (a, b, r, q) = (a as i128, b as i128, r as i128, q_witness as i128);
    let absb = if b < 0 { -b } else { b };
    let absr = if r < 0 { -r } else { r };
    absr < absb && (r == 0 || (r < 0) == (a < 0)) && q * b + r == a
}

/// classify a result of the implementation
pub fn as_int(v: &Variable) -> Option<i64> {
    match v {
        Variable::Int(x) => Some(*x),
        _ => None,
    }
}
pub fn as_bool(v: &Variable) -> Option<bool> {
    match v {
        Variable::Bool(x) => Some(*x),
        _ => None,
    }
}
pub fn as_float(v: &Variable) -> Option<f64> {
    match v {
        Variable::Float(x) => Some(*x),
        _ => None,
    }
}

pub fn agrees_var(v: &Variable, s: Spec) -> bool {
    match (v, s) {
        (Variable::Int(x), Spec::Int(y)) => *x == y,
        (Variable::Bool(x), Spec::Bool(y)) => *x == y,
        _ => false,
    }
}
pub fn agrees_err(e: &ExecError, s: Spec) -> bool {
    matches!(
        (e, s),
        (ExecError::ZeroDivision, Spec::ZeroDivision)
            | (ExecError::ZeroModulo, Spec::ZeroModulo)
            | (ExecError::OverflowShift, Spec::OverflowShift)
            | (ExecError::NegativeExponent, Spec::NegativeExponent)
    )
}
pub fn agrees(r: &Result<Variable, ExecError>, s: Spec) -> bool {
    match r {
        Ok(v) => agrees_var(v, s),
        Err(e) => agrees_err(e, s),
    }
}

pub fn new_cell(var_type: Type, v: Variable) -> Arc<Mut> {
    Arc::new(Mut {
        var_type,
        variable: RwLock::new(v),
    })
}
pub fn cell_int(c: &Arc<Mut>) -> Option<i64> {
    as_int(&c.variable.read().unwrap())
}

pub fn local(name: &'static str, t: Type) -> Instruction {
    Instruction::LocalVariable(name.into(), LocalVariable::Other(t))
}

/// same bits (so that NaN == NaN for "the implementation returned exactly the IEEE result")
pub fn same_f64(a: f64, b: f64) -> bool {
    a.to_bits() == b.to_bits() || (a.is_nan() && b.is_nan())
}

/// `-Z stubbing` replacement for alloc::fmt::format: message text is never the subject of a check
pub fn stub_format(_args: std::fmt::Arguments<'_>) -> String {
    String::new()
}
