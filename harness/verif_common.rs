//! Shared reference oracles ("spec") and builders used by the Kani harnesses.
//! Compiled only into the scratch copy (`#[cfg(kani)]`), never into /repo.
//! The oracles are written from docs/operators.md, independently of the implementation:
//! integer results are computed in i128 and truncated, division results are *checked* with the
//! division lemma instead of recomputed.
#![allow(dead_code)]
/// `crate::vv![a, b, ..]` writes its elements as ONE array value (> 16 bytes), after which CBMC no longer
/// recovers the tags of the elements; pushing them one by one keeps every 16-byte value resolved.
/// Capacity 4 up front: growing a Vec goes through `realloc`, which has the same effect.
#[macro_export]
macro_rules! vv {
    () => { Vec::with_capacity(4) };
    ($($x:expr),+ $(,)?) => {{ let mut v = Vec::with_capacity(4); $( v.push($x); )+ v }};
}
use crate::instruction::local_variable::{LocalVariable, LocalVariables};
use crate::instruction::Instruction;
use crate::variable::{Mut, Type, Variable};
use crate::verif_model::Arc;
use crate::{ExecError, Interpreter};
use crate::verif_model::RwLock;

/// documented outcome of an integer binary operator
#[derive(Clone, Copy, PartialEq, Eq)]
pub enum Spec {
    Int(i64),
    Bool(bool),
    ZeroDivision,
    ZeroModulo,
    OverflowShift,
    NegativeExponent,
}

pub fn trunc(x: i128) -> i64 {
    x as i64
}

pub fn spec_add(a: i64, b: i64) -> Spec {
    Spec::Int(trunc(a as i128 + b as i128))
}
pub fn spec_sub(a: i64, b: i64) -> Spec {
    Spec::Int(trunc(a as i128 - b as i128))
}
pub fn spec_neg(a: i64) -> i64 {
    trunc(-(a as i128))
}
/// bitwise identities, bit by bit free: x&y etc. are primitive; we restate them through
/// De Morgan / arithmetic identities so that the oracle is not the same expression.
pub fn spec_and(a: i64, b: i64) -> Spec {
    Spec::Int(!(!a | !b))
}
pub fn spec_or(a: i64, b: i64) -> Spec {
    Spec::Int(!(!a & !b))
}
pub fn spec_xor(a: i64, b: i64) -> Spec {
    Spec::Int((a | b) & !(a & b))
}
pub fn spec_not(a: i64) -> i64 {
    trunc(-(a as i128) - 1)
}
pub fn spec_shl(a: i64, b: i64) -> Spec {
    if b < 0 || b > 63 {
        return Spec::OverflowShift;
    }
    // a * 2^b mod 2^64, via unsigned 128-bit shift then truncation
    Spec::Int((((a as u64) as u128) << (b as u32)) as u64 as i64)
}
pub fn spec_shr(a: i64, b: i64) -> Spec {
    if b < 0 || b > 63 {
        return Spec::OverflowShift;
    }
    // arithmetic shift = floor(a / 2^b): shift the sign-extended 128-bit value
    Spec::Int(((a as i128) >> (b as u32)) as i64)
}
pub fn spec_lt(a: i64, b: i64) -> Spec {
    Spec::Bool((a as i128) - (b as i128) < 0)
}
pub fn spec_le(a: i64, b: i64) -> Spec {
    Spec::Bool((a as i128) - (b as i128) <= 0)
}
pub fn spec_gt(a: i64, b: i64) -> Spec {
    Spec::Bool((a as i128) - (b as i128) > 0)
}
pub fn spec_ge(a: i64, b: i64) -> Spec {
    Spec::Bool((a as i128) - (b as i128) >= 0)
}
pub fn spec_eq(a: i64, b: i64) -> Spec {
    Spec::Bool((a as i128) - (b as i128) == 0)
}
pub fn spec_ne(a: i64, b: i64) -> Spec {
    Spec::Bool((a as i128) - (b as i128) != 0)
}

/// Division lemma: is `q` the documented quotient of a / b ? (b != 0)
/// trunc toward zero; MIN / -1 == MIN.  Checked on the *returned* q, no second divider.
pub fn is_quotient(a: i64, b: i64, q: i64) -> bool {
    if a == i64::MIN && b == -1 {
        return q == i64::MIN;
    }
    let (a, b, q) = (a as i128, b as i128, q as i128);
    let r = a - q * b;
    let absb = if b < 0 { -b } else { b };
    let absr = if r < 0 { -r } else { r };
    absr < absb && (r == 0 || (r < 0) == (a < 0))
}
/// is `r` the documented remainder of a % b ? (b != 0): sign of dividend, |r|<|b|, b | a-r
pub fn is_remainder(a: i64, b: i64, r: i64, q_witness: i64) -> bool {
    if a == i64::MIN && b == -1 {
        return r == 0;
    }
    let (a, b, r, q) = (a as i128, b as i128, r as i128, q_witness as i128);
    let absb = if b < 0 { -b } else { b };
    let absr = if r < 0 { -r } else { r };
    absr < absb && (r == 0 || (r < 0) == (a < 0)) && q * b + r == a
}

/// classify a result of the implementation
pub fn as_int(v: &Variable) -> Option<i64> {
    match v {
        Variable::Int(x) => Some(*x),
        _ => None,
    }
}
pub fn as_bool(v: &Variable) -> Option<bool> {
    match v {
        Variable::Bool(x) => Some(*x),
        _ => None,
    }
}
pub fn as_float(v: &Variable) -> Option<f64> {
    match v {
        Variable::Float(x) => Some(*x),
        _ => None,
    }
}

pub fn agrees_var(v: &Variable, s: Spec) -> bool {
    match (v, s) {
        (Variable::Int(x), Spec::Int(y)) => *x == y,
        (Variable::Bool(x), Spec::Bool(y)) => *x == y,
        _ => false,
    }
}
pub fn agrees_err(e: &ExecError, s: Spec) -> bool {
    matches!(
        (e, s),
        (ExecError::ZeroDivision, Spec::ZeroDivision)
            | (ExecError::ZeroModulo, Spec::ZeroModulo)
            | (ExecError::OverflowShift, Spec::OverflowShift)
            | (ExecError::NegativeExponent, Spec::NegativeExponent)
    )
}
pub fn agrees(r: &Result<Variable, ExecError>, s: Spec) -> bool {
    match r {
        Ok(v) => agrees_var(v, s),
        Err(e) => agrees_err(e, s),
    }
}

pub fn new_cell(var_type: Type, v: Variable) -> Arc<Mut> {
    Arc::new(Mut {
        var_type,
        variable: RwLock::new(v),
    })
}
pub fn cell_int(c: &Arc<Mut>) -> Option<i64> {
    as_int(&c.variable.read().unwrap())
}

pub fn local(name: &'static str, t: Type) -> Instruction {
    Instruction::LocalVariable(name.into(), LocalVariable::Other(t))
}

/// same bits (so that NaN == NaN for "the implementation returned exactly the IEEE result")
pub fn same_f64(a: f64, b: f64) -> bool {
    a.to_bits() == b.to_bits() || (a.is_nan() && b.is_nan())
}

/// `-Z stubbing` replacement for alloc::fmt::format: message text is never the subject of a check
pub fn stub_format(_args: std::fmt::Arguments<'_>) -> String {
    String::new()
}

// =============================================================================================
// Harness-side type descriptors.
//
// A type of the universe is a small integer `Ty` (index); its shape is given by *code*
// (`desc(i)`: a match on a concrete index), never by data with pointers: CBMC does not resolve the
// tags of pointer-carrying enum data (not even of `static` tables), so a descriptor *enum* made the
// symbolic execution walk every arm.  `real(i)` builds the repo's own `Type` with the repo's own
// constructors (`|` = `Type::concat` for unions, so unions are real MultiTypes over the container
// model); `val(i,k)` builds a representative inhabitant with symbolic scalars; `in_ty(v,i)` is the
// reference deep-membership relation.
// =============================================================================================
use crate::variable::{Array, FunctionType, StructType, Typed};
use crate::verif_model::HashMap;

pub type Ty = u8;
pub const NONE: Ty = 255;

#[derive(Clone, Copy)]
pub struct D {
    /// 0 bool 1 int 2 float 3 string 4 () 5 any 6 !  | 10 [a] | 11 mut a | 12 (a,b[,c]) | 13 (a[,b])->c
    /// | 14 ()->c | 15 struct{a: a} | 16 struct{a: a, b: b} | 17 union a|b[|c] | 18 (a)  one-tuple
    pub k: u8,
    pub a: Ty,
    pub b: Ty,
    pub c: Ty,
}
const fn d(k: u8, a: Ty, b: Ty, c: Ty) -> D {
    D { k, a, b, c }
}

// ---- the universe -----------------------------------------------------------------------------
pub const T_BOOL: Ty = 0;
pub const T_INT: Ty = 1;
pub const T_FLOAT: Ty = 2;
pub const T_STR: Ty = 3;
pub const T_VOID: Ty = 4;
pub const T_ANY: Ty = 5;
pub const T_NEVER: Ty = 6;
pub const N_LEAF: Ty = 7;
// depth 1
pub const T_ARR_INT: Ty = 7;
pub const T_ARR_FLOAT: Ty = 8;
pub const T_ARR_ANY: Ty = 9;
pub const T_ARR_NEVER: Ty = 10;
pub const T_MUT_INT: Ty = 11;
pub const T_MUT_FLOAT: Ty = 12;
pub const T_TUP_INT_FLOAT: Ty = 13;
pub const T_TUP_INT_INT: Ty = 14;
pub const T_TUP_ANY_INT: Ty = 15;
pub const T_FUN_INT_FLOAT: Ty = 16; // (int) -> float
pub const T_FUN_ANY_INT: Ty = 17; // (any) -> int
pub const T_FUN0_INT: Ty = 18; // () -> int
pub const T_ST_A_INT: Ty = 19; // struct{a: int}
pub const T_ST_AB: Ty = 20; // struct{a: int, b: float}
pub const T_ST_A_ANY: Ty = 21; // struct{a: any}
pub const T_U_INT_FLOAT: Ty = 22; // int|float
pub const T_U_INT_STR: Ty = 23; // int|string
pub const T_U_INT_FLOAT_STR: Ty = 24; // int|float|string
pub const T_U_INT_ARR_INT: Ty = 25; // int|[int]
pub const T_U_ARRS: Ty = 26; // [int]|[float]
pub const T_U_MUTS: Ty = 27; // mut int|mut float
pub const T_U_ARR_MUT: Ty = 28; // [int]|mut int
// depth 2
pub const T_ARR_U_INT_FLOAT: Ty = 29; // [int|float]
pub const T_MUT_U_INT_FLOAT: Ty = 30; // mut (int|float)
pub const T_ARR_ARR_INT: Ty = 31; // [[int]]
pub const T_TUP_U_INT: Ty = 32; // (int|float, int)
pub const T_FUN_U_INT: Ty = 33; // (int|float) -> int
pub const T_FUN_INT_U: Ty = 34; // (int) -> (int|float)
pub const T_ST_A_U: Ty = 35; // struct{a: int|float}
pub const T_U_TUPS: Ty = 36; // (int,float)|(int,int)
pub const T_U_FUNS: Ty = 37; // (int)->float | (any)->int
pub const T_U_STRUCTS: Ty = 38; // struct{a:int} | struct{a:int,b:float}
pub const T_ITER_INT: Ty = 39; // () -> (bool, int)
pub const T_TUP_BOOL_INT: Ty = 40; // (bool, int)
pub const T_TUP1_INT: Ty = 41; // (int)
pub const T_MUT_ARR_INT: Ty = 42; // mut [int]
pub const T_U_MUT_INT_MUT_U: Ty = 43; // mut int | mut (int|float)
pub const T_MUT_U_INT_STR: Ty = 44; // mut (int|string)
pub const T_U_FLOAT_ARRANY_ARRINT: Ty = 45; // float | [any] | [int]   (a member is a supertype of a later one)
pub const T_U_INT_ARRU_ARRINT: Ty = 46; // int | [int|float] | [int]
pub const T_ARR_U_INT_STR: Ty = 47; // [int|string]
pub const T_FUN_U_U: Ty = 48; // (int|float) -> (int|float)
pub const T_ST_AB_ANY: Ty = 49; // struct{a: any, b: float}
pub const N_TY: Ty = 50;

pub fn desc(i: Ty) -> D {
    match i {
        0 => d(0, NONE, NONE, NONE),
        1 => d(1, NONE, NONE, NONE),
        2 => d(2, NONE, NONE, NONE),
        3 => d(3, NONE, NONE, NONE),
        4 => d(4, NONE, NONE, NONE),
        5 => d(5, NONE, NONE, NONE),
        6 => d(6, NONE, NONE, NONE),
        7 => d(10, T_INT, NONE, NONE),
        8 => d(10, T_FLOAT, NONE, NONE),
        9 => d(10, T_ANY, NONE, NONE),
        10 => d(10, T_NEVER, NONE, NONE),
        11 => d(11, T_INT, NONE, NONE),
        12 => d(11, T_FLOAT, NONE, NONE),
        13 => d(12, T_INT, T_FLOAT, NONE),
        14 => d(12, T_INT, T_INT, NONE),
        15 => d(12, T_ANY, T_INT, NONE),
        16 => d(13, T_INT, NONE, T_FLOAT),
        17 => d(13, T_ANY, NONE, T_INT),
        18 => d(14, NONE, NONE, T_INT),
        19 => d(15, T_INT, NONE, NONE),
        20 => d(16, T_INT, T_FLOAT, NONE),
        21 => d(15, T_ANY, NONE, NONE),
        22 => d(17, T_INT, T_FLOAT, NONE),
        23 => d(17, T_INT, T_STR, NONE),
        24 => d(17, T_INT, T_FLOAT, T_STR),
        25 => d(17, T_INT, T_ARR_INT, NONE),
        26 => d(17, T_ARR_INT, T_ARR_FLOAT, NONE),
        27 => d(17, T_MUT_INT, T_MUT_FLOAT, NONE),
        28 => d(17, T_ARR_INT, T_MUT_INT, NONE),
        29 => d(10, T_U_INT_FLOAT, NONE, NONE),
        30 => d(11, T_U_INT_FLOAT, NONE, NONE),
        31 => d(10, T_ARR_INT, NONE, NONE),
        32 => d(12, T_U_INT_FLOAT, T_INT, NONE),
        33 => d(13, T_U_INT_FLOAT, NONE, T_INT),
        34 => d(13, T_INT, NONE, T_U_INT_FLOAT),
        35 => d(15, T_U_INT_FLOAT, NONE, NONE),
        36 => d(17, T_TUP_INT_FLOAT, T_TUP_INT_INT, NONE),
        37 => d(17, T_FUN_INT_FLOAT, T_FUN_ANY_INT, NONE),
        38 => d(17, T_ST_A_INT, T_ST_AB, NONE),
        39 => d(14, NONE, NONE, T_TUP_BOOL_INT),
        40 => d(12, T_BOOL, T_INT, NONE),
        41 => d(18, T_INT, NONE, NONE),
        42 => d(11, T_ARR_INT, NONE, NONE),
        43 => d(17, T_MUT_INT, T_MUT_U_INT_FLOAT, NONE),
        44 => d(11, T_U_INT_STR, NONE, NONE),
        45 => d(17, T_FLOAT, T_ARR_ANY, T_ARR_INT),
        46 => d(17, T_INT, T_ARR_U_INT_FLOAT, T_ARR_INT),
        47 => d(10, T_U_INT_STR, NONE, NONE),
        48 => d(13, T_U_INT_FLOAT, NONE, T_U_INT_FLOAT),
        49 => d(16, T_ANY, T_FLOAT, NONE),
        _ => panic!("type index outside the universe"),
    }
}

pub fn real(i: Ty) -> Type {
    let t = desc(i);
    match t.k {
        0 => Type::Bool,
        1 => Type::Int,
        2 => Type::Float,
        3 => Type::String,
        4 => Type::Void,
        5 => Type::Any,
        6 => Type::Never,
        10 => Type::Array(Arc::new(real(t.a))),
        11 => Type::Mut(Arc::new(real(t.a))),
        12 => {
            let mut v = crate::vv![real(t.a), real(t.b)];
            if t.c != NONE {
                v.push(real(t.c));
            }
            Type::Tuple(v.into())
        }
        13 => {
            let mut v = crate::vv![real(t.a)];
            if t.b != NONE {
                v.push(real(t.b));
            }
            Type::Function(Arc::new(FunctionType { params: v.into(), return_type: real(t.c) }))
        }
        14 => Type::Function(Arc::new(FunctionType { params: Arc::from(Vec::<Type>::new()), return_type: real(t.c) })),
        15 => {
            let mut m: HashMap<Arc<str>, Type> = HashMap::new();
            m.insert("a".into(), real(t.a));
            Type::Struct(StructType(Arc::new(m)))
        }
        16 => {
            let mut m: HashMap<Arc<str>, Type> = HashMap::new();
            m.insert("a".into(), real(t.a));
            m.insert("b".into(), real(t.b));
            Type::Struct(StructType(Arc::new(m)))
        }
        17 => {
            let mut acc = real(t.a) | real(t.b);
            if t.c != NONE {
                acc = acc | real(t.c);
            }
            acc
        }
        18 => Type::Tuple(crate::vv![real(t.a)].into()),
        _ => panic!("bad descriptor"),
    }
}
/// the union with its members inserted in the opposite order
pub fn real_rev(i: Ty) -> Type {
    let t = desc(i);
    if t.k != 17 {
        return real(i);
    }
    if t.c != NONE {
        real(t.c) | real(t.b) | real(t.a)
    } else {
        real(t.b) | real(t.a)
    }
}

fn short_str(k: usize) -> Variable {
    if k % 2 == 0 { Variable::String("".into()) } else { Variable::String("a\u{e9}".into()) }
}

/// number of structurally different witnesses `val(i, k)` worth enumerating for type i
pub fn n_vals(i: Ty) -> usize {
    let t = desc(i);
    match t.k {
        5 => 3,
        6 => 0,
        10 => if desc(t.a).k == 6 { 1 } else { 2 },
        17 => if t.c != NONE { 3 } else { 2 },
        _ => 1,
    }
}

/// A representative value inhabiting type i; scalars are symbolic, `k` (concrete) selects union
/// members / the empty-vs-non-empty array / the `any` witness.
pub fn val(i: Ty, k: usize) -> Variable {
    let t = desc(i);
    match t.k {
        0 => Variable::Bool(kani::any()),
        1 => Variable::Int(kani::any()),
        2 => Variable::Float(kani::any()),
        3 => short_str(k),
        4 => Variable::Void,
        5 => match k % 3 {
            0 => Variable::Int(kani::any()),
            1 => short_str(k / 3),
            _ => Variable::Void,
        },
        6 => panic!("no value inhabits !"),
        10 => {
            let elements: Arc<[Variable]> = if k % 2 == 0 || desc(t.a).k == 6 {
                Arc::from(Vec::new())
            } else {
                Arc::from(crate::vv![val(t.a, k / 2)])
            };
            Variable::Array(Arc::new(Array::new_with_type(real(t.a), elements)))
        }
        11 => Variable::Mut(new_cell(real(t.a), val(t.a, k))),
        12 => {
            let mut v = crate::vv![val(t.a, k), val(t.b, k)];
            if t.c != NONE {
                v.push(val(t.c, k));
            }
            Variable::Tuple(v.into())
        }
        13 | 14 => Variable::of_type(&real(i)).unwrap(),
        15 => {
            let mut m: HashMap<Arc<str>, Variable> = HashMap::new();
            m.insert("a".into(), val(t.a, k));
            Variable::Struct(Arc::new(m))
        }
        16 => {
            let mut m: HashMap<Arc<str>, Variable> = HashMap::new();
            m.insert("a".into(), val(t.a, k));
            m.insert("b".into(), val(t.b, k));
            Variable::Struct(Arc::new(m))
        }
        17 => {
            let n = if t.c != NONE { 3 } else { 2 };
            let m = match k % n {
                0 => t.a,
                1 => t.b,
                _ => t.c,
            };
            val(m, k / n)
        }
        18 => Variable::Tuple(crate::vv![val(t.a, k)].into()),
        _ => panic!("bad descriptor"),
    }
}

/// Deep membership "v belongs to type i", judged by the *contents* of v (reference semantics
/// written in the harness; function values are judged by their declared type).
pub fn in_ty(v: &Variable, i: Ty) -> bool {
    let t = desc(i);
    match t.k {
        5 => true,
        6 => false,
        0 => matches!(v, Variable::Bool(_)),
        1 => matches!(v, Variable::Int(_)),
        2 => matches!(v, Variable::Float(_)),
        3 => matches!(v, Variable::String(_)),
        4 => matches!(v, Variable::Void),
        10 => match v {
            Variable::Array(a) => {
                let mut j = 0;
                while j < a.len() {
                    if !in_ty(&a[j], t.a) {
                        return false;
                    }
                    j += 1;
                }
                true
            }
            _ => false,
        },
        11 => match v {
            // a cell belongs to `mut T` iff it was declared with a type equivalent to T and holds a T
            Variable::Mut(m) => {
                let declared = real(t.a);
                m.var_type.matches(&declared) && declared.matches(&m.var_type) && in_ty(&m.variable.read().unwrap(), t.a)
            }
            _ => false,
        },
        12 | 18 => match v {
            Variable::Tuple(xs) => {
                let n = if t.k == 18 { 1 } else if t.c != NONE { 3 } else { 2 };
                xs.len() == n
                    && in_ty(&xs[0], t.a)
                    && (n < 2 || in_ty(&xs[1], t.b))
                    && (n < 3 || in_ty(&xs[2], t.c))
            }
            _ => false,
        },
        13 | 14 => match v {
            Variable::Function(f) => f.as_type().matches(&real(i)),
            _ => false,
        },
        15 | 16 => match v {
            Variable::Struct(m) => {
                let a_ok = match m.get("a") {
                    Some(x) => in_ty(x, t.a),
                    None => false,
                };
                let b_ok = t.k == 15
                    || match m.get("b") {
                        Some(x) => in_ty(x, t.b),
                        None => false,
                    };
                a_ok && b_ok
            }
            _ => false,
        },
        17 => in_ty(v, t.a) || in_ty(v, t.b) || (t.c != NONE && in_ty(v, t.c)),
        _ => panic!("bad descriptor"),
    }
}

/// Deep membership of a value in a *real* `Type` (reference semantics, written independently of
/// `Type::matches`): used to judge results against the static type an instruction reports.
pub fn in_type(v: &Variable, t: &Type) -> bool {
    match t {
        Type::Any => true,
        Type::Never => false,
        Type::Bool => matches!(v, Variable::Bool(_)),
        Type::Int => matches!(v, Variable::Int(_)),
        Type::Float => matches!(v, Variable::Float(_)),
        Type::String => matches!(v, Variable::String(_)),
        Type::Void => matches!(v, Variable::Void),
        Type::Array(e) => match v {
            Variable::Array(a) => {
                let mut j = 0;
                while j < a.len() {
                    if !in_type(&a[j], e) {
                        return false;
                    }
                    j += 1;
                }
                true
            }
            _ => false,
        },
        Type::Tuple(ts) => match v {
            Variable::Tuple(xs) => {
                if xs.len() != ts.len() {
                    return false;
                }
                let mut j = 0;
                while j < ts.len() {
                    if !in_type(&xs[j], &ts[j]) {
                        return false;
                    }
                    j += 1;
                }
                true
            }
            _ => false,
        },
        Type::Multi(m) => {
            for member in m.iter() {
                if in_type(v, member) {
                    return true;
                }
            }
            false
        }
        Type::Mut(e) => match v {
            Variable::Mut(c) => c.var_type.matches(e) && e.matches(&c.var_type) && in_type(&c.variable.read().unwrap(), e),
            _ => false,
        },
        Type::Struct(st) => match v {
            Variable::Struct(m) => {
                for (k, ft) in st.0.iter() {
                    match m.get(&**k) {
                        Some(x) => {
                            if !in_type(x, ft) {
                                return false;
                            }
                        }
                        None => return false,
                    }
                }
                true
            }
            _ => false,
        },
        Type::Function(_) => match v {
            Variable::Function(f) => f.as_type().matches(t),
            _ => false,
        },
    }
}
/// result judged both ways the property names: by contents and by the runtime type tag
pub fn sound(v: &Variable, t: &Type) -> bool {
    in_type(v, t) && v.as_type().matches(t)
}
