//! Shared reference oracles ("spec") and builders used by the Kani harnesses.
//! Compiled only into the scratch copy (`#[cfg(kani)]`), never into /repo.
//! The oracles are written from docs/operators.md, independently of the implementation:
//! integer results are computed in i128 and truncated, division results are *checked* with the
//! division lemma instead of recomputed.
#![allow(dead_code)]
use crate::instruction::local_variable::{LocalVariable, LocalVariables};
use crate::instruction::Instruction;
use crate::variable::{Mut, Type, Variable};
use crate::verif_model::Arc;
use crate::{ExecError, Interpreter};
use std::sync::RwLock;

/// documented outcome of an integer binary operator
#[derive(Clone, Copy, PartialEq, Eq)]
pub enum Spec {
    Int(i64),
    Bool(bool),
    ZeroDivision,
    ZeroModulo,
    OverflowShift,
    NegativeExponent,
}

pub fn trunc(x: i128) -> i64 {
    x as i64
}

pub fn spec_add(a: i64, b: i64) -> Spec {
    Spec::Int(trunc(a as i128 + b as i128))
}
pub fn spec_sub(a: i64, b: i64) -> Spec {
    Spec::Int(trunc(a as i128 - b as i128))
}
pub fn spec_neg(a: i64) -> i64 {
    trunc(-(a as i128))
}
/// bitwise identities, bit by bit free: x&y etc. are primitive; we restate them through
/// De Morgan / arithmetic identities so that the oracle is not the same expression.
pub fn spec_and(a: i64, b: i64) -> Spec {
    Spec::Int(!(!a | !b))
}
pub fn spec_or(a: i64, b: i64) -> Spec {
    Spec::Int(!(!a & !b))
}
pub fn spec_xor(a: i64, b: i64) -> Spec {
    Spec::Int((a | b) & !(a & b))
}
pub fn spec_not(a: i64) -> i64 {
    trunc(-(a as i128) - 1)
}
pub fn spec_shl(a: i64, b: i64) -> Spec {
    if b < 0 || b > 63 {
        return Spec::OverflowShift;
    }
    // a * 2^b mod 2^64, via unsigned 128-bit shift then truncation
    Spec::Int((((a as u64) as u128) << (b as u32)) as u64 as i64)
}
pub fn spec_shr(a: i64, b: i64) -> Spec {
    if b < 0 || b > 63 {
        return Spec::OverflowShift;
    }
    // arithmetic shift = floor(a / 2^b): shift the sign-extended 128-bit value
    Spec::Int(((a as i128) >> (b as u32)) as i64)
}
pub fn spec_lt(a: i64, b: i64) -> Spec {
    Spec::Bool((a as i128) - (b as i128) < 0)
}
pub fn spec_le(a: i64, b: i64) -> Spec {
    Spec::Bool((a as i128) - (b as i128) <= 0)
}
pub fn spec_gt(a: i64, b: i64) -> Spec {
    Spec::Bool((a as i128) - (b as i128) > 0)
}
pub fn spec_ge(a: i64, b: i64) -> Spec {
    Spec::Bool((a as i128) - (b as i128) >= 0)
}
pub fn spec_eq(a: i64, b: i64) -> Spec {
    Spec::Bool((a as i128) - (b as i128) == 0)
}
pub fn spec_ne(a: i64, b: i64) -> Spec {
    Spec::Bool((a as i128) - (b as i128) != 0)
}

/// Division lemma: is `q` the documented quotient of a / b ? (b != 0)
/// trunc toward zero; MIN / -1 == MIN.  Checked on the *returned* q, no second divider.
pub fn is_quotient(a: i64, b: i64, q: i64) -> bool {
    if a == i64::MIN && b == -1 {
        return q == i64::MIN;
    }
    let (a, b, q) = (a as i128, b as i128, q as i128);
    let r = a - q * b;
    let absb = if b < 0 { -b } else { b };
    let absr = if r < 0 { -r } else { r };
    absr < absb && (r == 0 || (r < 0) == (a < 0))
}
/// is `r` the documented remainder of a % b ? (b != 0): sign of dividend, |r|<|b|, b | a-r
pub fn is_remainder(a: i64, b: i64, r: i64, q_witness: i64) -> bool {
    if a == i64::MIN && b == -1 {
        return r == 0;
    }
    let (a, b, r, q) = (a as i128, b as i128, r as i128, q_witness as i128);
    let absb = if b < 0 { -b } else { b };
    let absr = if r < 0 { -r } else { r };
    absr < absb && (r == 0 || (r < 0) == (a < 0)) && q * b + r == a
}

/// classify a result of the implementation
pub fn as_int(v: &Variable) -> Option<i64> {
    match v {
        Variable::Int(x) => Some(*x),
        _ => None,
    }
}
pub fn as_bool(v: &Variable) -> Option<bool> {
    match v {
        Variable::Bool(x) => Some(*x),
        _ => None,
    }
}
pub fn as_float(v: &Variable) -> Option<f64> {
    match v {
        Variable::Float(x) => Some(*x),
        _ => None,
    }
}

pub fn agrees_var(v: &Variable, s: Spec) -> bool {
    match (v, s) {
        (Variable::Int(x), Spec::Int(y)) => *x == y,
        (Variable::Bool(x), Spec::Bool(y)) => *x == y,
        _ => false,
    }
}
pub fn agrees_err(e: &ExecError, s: Spec) -> bool {
    matches!(
        (e, s),
        (ExecError::ZeroDivision, Spec::ZeroDivision)
            | (ExecError::ZeroModulo, Spec::ZeroModulo)
            | (ExecError::OverflowShift, Spec::OverflowShift)
            | (ExecError::NegativeExponent, Spec::NegativeExponent)
    )
}
pub fn agrees(r: &Result<Variable, ExecError>, s: Spec) -> bool {
    match r {
        Ok(v) => agrees_var(v, s),
        Err(e) => agrees_err(e, s),
    }
}

pub fn new_cell(var_type: Type, v: Variable) -> Arc<Mut> {
    Arc::new(Mut {
        var_type,
        variable: RwLock::new(v),
    })
}
pub fn cell_int(c: &Arc<Mut>) -> Option<i64> {
    as_int(&c.variable.read().unwrap())
}

pub fn local(name: &'static str, t: Type) -> Instruction {
    Instruction::LocalVariable(name.into(), LocalVariable::Other(t))
}

/// same bits (so that NaN == NaN for "the implementation returned exactly the IEEE result")
pub fn same_f64(a: f64, b: f64) -> bool {
    a.to_bits() == b.to_bits() || (a.is_nan() && b.is_nan())
}

/// `-Z stubbing` replacement for alloc::fmt::format: message text is never the subject of a check
pub fn stub_format(_args: std::fmt::Arguments<'_>) -> String {
    String::new()
}

// =============================================================================================
// Harness-side type descriptors.  `Ty` is plain constant data (so universes are enumerated with
// concrete loop indices and CBMC sees concrete shapes); `real()` builds the repo's own `Type`
// with the repo's own constructors (`Type::concat` for unions, so unions are real MultiTypes).
// =============================================================================================
use crate::variable::{FunctionType, StructType};
use crate::verif_model::HashMap;

#[derive(Clone, Copy, PartialEq, Eq, Debug)]
pub enum Ty {
    Bool,
    Int,
    Float,
    Str,
    Void,
    Any,
    Never,
    Arr(&'static Ty),
    Mut(&'static Ty),
    Tup(&'static [Ty]),
    Fun(&'static [Ty], &'static Ty),
    Struct(&'static [(&'static str, Ty)]),
    Union(&'static [Ty]),
}

pub fn real(t: &Ty) -> Type {
    match t {
        Ty::Bool => Type::Bool,
        Ty::Int => Type::Int,
        Ty::Float => Type::Float,
        Ty::Str => Type::String,
        Ty::Void => Type::Void,
        Ty::Any => Type::Any,
        Ty::Never => Type::Never,
        Ty::Arr(e) => Type::Array(Arc::new(real(e))),
        Ty::Mut(e) => Type::Mut(Arc::new(real(e))),
        Ty::Tup(es) => {
            let mut v = Vec::new();
            let mut k = 0;
            while k < es.len() {
                v.push(real(&es[k]));
                k += 1;
            }
            Type::Tuple(v.into())
        }
        Ty::Fun(ps, r) => {
            let mut v = Vec::new();
            let mut k = 0;
            while k < ps.len() {
                v.push(real(&ps[k]));
                k += 1;
            }
            Type::Function(Arc::new(FunctionType { params: v.into(), return_type: real(r) }))
        }
        Ty::Struct(fs) => {
            let mut m: HashMap<Arc<str>, Type> = HashMap::new();
            let mut k = 0;
            while k < fs.len() {
                m.insert(fs[k].0.into(), real(&fs[k].1));
                k += 1;
            }
            Type::Struct(StructType(Arc::new(m)))
        }
        Ty::Union(ms) => {
            let mut acc = real(&ms[0]);
            let mut k = 1;
            while k < ms.len() {
                acc = acc | real(&ms[k]);
                k += 1;
            }
            acc
        }
    }
}

use crate::variable::{Array, Typed};

fn short_str(k: usize) -> Variable {
    if k % 2 == 0 { Variable::String("".into()) } else { Variable::String("a\u{e9}".into()) }
}

/// A representative value inhabiting `t`; scalars are symbolic, `k` (concrete) selects union
/// members / the empty-vs-non-empty array / the `any` witness.
pub fn val(t: &Ty, k: usize) -> Variable {
    match t {
        Ty::Bool => Variable::Bool(kani::any()),
        Ty::Int => Variable::Int(kani::any()),
        Ty::Float => Variable::Float(kani::any()),
        Ty::Str => short_str(k),
        Ty::Void => Variable::Void,
        Ty::Any => match k % 3 {
            0 => Variable::Int(kani::any()),
            1 => short_str(k / 3),
            _ => Variable::Void,
        },
        Ty::Never => panic!("no value inhabits !"),
        Ty::Arr(e) => {
            let elements: Arc<[Variable]> = if k % 2 == 0 || matches!(**e, Ty::Never) {
                Arc::from(Vec::new())
            } else {
                Arc::from(vec![val(e, k / 2)])
            };
            Variable::Array(Arc::new(Array::new_with_type(real(e), elements)))
        }
        Ty::Mut(e) => Variable::Mut(new_cell(real(e), val(e, k))),
        Ty::Tup(es) => {
            let mut v = Vec::new();
            let mut i = 0;
            while i < es.len() {
                v.push(val(&es[i], k));
                i += 1;
            }
            Variable::Tuple(v.into())
        }
        Ty::Fun(..) => Variable::of_type(&real(t)).unwrap(),
        Ty::Struct(fs) => {
            let mut m: HashMap<Arc<str>, Variable> = HashMap::new();
            let mut i = 0;
            while i < fs.len() {
                m.insert(fs[i].0.into(), val(&fs[i].1, k));
                i += 1;
            }
            Variable::Struct(Arc::new(m))
        }
        Ty::Union(ms) => val(&ms[k % ms.len()], k / ms.len()),
    }
}

/// Deep membership "v belongs to t", judged by the *contents* of v (reference semantics written
/// in the harness; function values are judged by their declared type).
pub fn in_ty(v: &Variable, t: &Ty) -> bool {
    match t {
        Ty::Any => true,
        Ty::Never => false,
        Ty::Bool => matches!(v, Variable::Bool(_)),
        Ty::Int => matches!(v, Variable::Int(_)),
        Ty::Float => matches!(v, Variable::Float(_)),
        Ty::Str => matches!(v, Variable::String(_)),
        Ty::Void => matches!(v, Variable::Void),
        Ty::Arr(e) => match v {
            Variable::Array(a) => {
                let mut i = 0;
                while i < a.len() {
                    if !in_ty(&a[i], e) {
                        return false;
                    }
                    i += 1;
                }
                true
            }
            _ => false,
        },
        Ty::Mut(e) => match v {
            // a cell belongs to `mut T` iff it was declared with a type equivalent to T and holds a T
            Variable::Mut(m) => {
                let declared = real(e);
                m.var_type.matches(&declared) && declared.matches(&m.var_type) && in_ty(&m.variable.read().unwrap(), e)
            }
            _ => false,
        },
        Ty::Tup(es) => match v {
            Variable::Tuple(xs) => {
                if xs.len() != es.len() {
                    return false;
                }
                let mut i = 0;
                while i < es.len() {
                    if !in_ty(&xs[i], &es[i]) {
                        return false;
                    }
                    i += 1;
                }
                true
            }
            _ => false,
        },
        Ty::Fun(..) => match v {
            Variable::Function(f) => f.as_type().matches(&real(t)),
            _ => false,
        },
        Ty::Struct(fs) => match v {
            Variable::Struct(m) => {
                let mut i = 0;
                while i < fs.len() {
                    match m.get(fs[i].0) {
                        Some(x) => {
                            if !in_ty(x, &fs[i].1) {
                                return false;
                            }
                        }
                        None => return false,
                    }
                    i += 1;
                }
                true
            }
            _ => false,
        },
        Ty::Union(ms) => {
            let mut i = 0;
            while i < ms.len() {
                if in_ty(v, &ms[i]) {
                    return true;
                }
                i += 1;
            }
            false
        }
    }
}
