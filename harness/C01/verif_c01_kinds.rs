//@ inject: src/instruction.rs
//@ modname: verif_c01_kinds
//@ property: C01
//@ tier: quick

//! C01 / C02 for the non-operator instruction kinds: each construct, built on operands that are
//! `LocalVariable`s of a static type T of the universe (bound to every enumerated witness of T,
//! scalars symbolic), under the admissibility condition its `create_instruction` checks, evaluates
//! without panic to a value that belongs to `return_type()` by contents and by tag.
use super::*;
use crate::function::{Body, Function, Param, Params};
use crate::instruction::array_repeat::ArrayRepeat;
use crate::instruction::block::Block;
use crate::instruction::control_flow::match_arm::MatchArm;
use crate::instruction::control_flow::{IfElse, Match, SetIfElse};
use crate::instruction::field_access::FieldAccess;
use crate::instruction::r#struct::Struct;
use crate::instruction::slicing::Slicing;
use crate::instruction::tuple_access::TupleAccess;
use crate::unary_operator::UnaryOperator;
use crate::verif_common::*;
use crate::verif_model::Arc;

use crate::instruction::verif_gate::*;
/// each harness declares the instruction kind of its own construct at depth 0; below it there are only
/// local variables, constants and (for `[v; n]`) the two operators that keep the length small
fn declare(kinds: u32) {
    allow_binops(b(crate::BinOperator::BitwiseAnd) | b(crate::BinOperator::Subtract));
    allow_unops(u(crate::unary_operator::UnaryOperator::UnaryMinus) | u(crate::unary_operator::UnaryOperator::Not) | u(crate::unary_operator::UnaryOperator::Indirection) | u(crate::unary_operator::UnaryOperator::Return));
    allow_mask(u32::MAX);
    let leaves = (1 << K_VARIABLE);
    allow_at(0, kinds | leaves, u64::MAX);
    allow_at(1, leaves | (kinds & (1 << K_BINOPERATION)), u64::MAX);
    allow_at(2, leaves | (kinds & (1 << K_BINOPERATION)), u64::MAX);
    allow_at(3, leaves, u64::MAX);
}
/// one harness per (construct, operand static types) row
macro_rules! row1 {
    ($(#[$m:meta])* $name:ident, $kinds:expr, $t:expr, $b:ident) => {
        $(#[$m])*
        #[kani::proof]
        #[kani::unwind(6)]
        #[kani::stub(alloc::fmt::format, crate::verif_common::stub_format)]
        pub fn $name() { declare($kinds); crate::verif_model::set_order(0); for_witnesses_1($t, $b); kani::cover!(true); }
    };
}
macro_rules! row2 {
    ($(#[$m:meta])* $name:ident, $kinds:expr, $t1:expr, $t2:expr, $b:ident) => {
        $(#[$m])*
        #[kani::proof]
        #[kani::unwind(6)]
        #[kani::stub(alloc::fmt::format, crate::verif_common::stub_format)]
        pub fn $name() { declare($kinds); crate::verif_model::set_order(0); for_witnesses_2($t1, $t2, $b); kani::cover!(true); }
    };
}
fn iws(i: Instruction) -> InstructionWithStr {
    InstructionWithStr { instruction: i, str: "e".into() }
}
fn judge(ins: &Instruction, interp: &mut Interpreter) {
    let rt = ins.return_type();
    match ins.exec(interp) {
        Ok(r) => assert!(sound(&r, &rt)),
        Err(ExecStop::Error(_)) => (),
        Err(_) => panic!("control signal escaped the construct"),
    }
}
/// run `build(static type of a)` with `a` bound to each witness of t
fn for_witnesses_1(t: Ty, build: fn(Type) -> Option<Instruction>) {
    let Some(ins) = build(real(t)) else { return };
    let mut k = 0;
    while k < n_vals(t) {
        let mut interp = Interpreter::without_stdlib();
        interp.insert("a".into(), val(t, k));
        interp.insert("i".into(), Variable::Int(kani::any()));
        interp.insert("c".into(), Variable::Bool(kani::any()));
        judge(&ins, &mut interp);
        k += 1;
    }
}
fn for_witnesses_2(t1: Ty, t2: Ty, build: fn(Type, Type) -> Option<Instruction>) {
    let Some(ins) = build(real(t1), real(t2)) else { return };
    let mut k1 = 0;
    while k1 < n_vals(t1) {
        let mut k2 = 0;
        while k2 < n_vals(t2) {
            let mut interp = Interpreter::without_stdlib();
            interp.insert("a".into(), val(t1, k1));
            interp.insert("b".into(), val(t2, k2));
            interp.insert("i".into(), Variable::Int(kani::any()));
            interp.insert("c".into(), Variable::Bool(kani::any()));
            judge(&ins, &mut interp);
            k2 += 1;
        }
        k1 += 1;
    }
}

// ---- prefix operators ----------------------------------------------------------------------
fn b_neg(t: Type) -> Option<Instruction> {
    if !t.matches(&(Type::Int | Type::Float)) { return None; }
    Some(UnaryOperation { instruction: local("a", t), op: UnaryOperator::UnaryMinus }.into())
}
fn b_not(t: Type) -> Option<Instruction> {
    if !t.matches(&(Type::Int | Type::Bool)) { return None; }
    Some(UnaryOperation { instruction: local("a", t), op: UnaryOperator::Not }.into())
}
fn b_deref(t: Type) -> Option<Instruction> {
    if !t.is_mut() { return None; }
    Some(UnaryOperation { instruction: local("a", t), op: UnaryOperator::Indirection }.into())
}
row1!(sound_neg_union, 1 << K_UNARYOPERATION, T_U_INT_FLOAT, b_neg);
row1!(sound_neg_rejects_int_or_string, 1 << K_UNARYOPERATION, T_U_INT_STR, b_neg);
row1!(sound_not_int, 1 << K_UNARYOPERATION, T_INT, b_not);
row1!(sound_deref_cell_of_union, 1 << K_UNARYOPERATION, T_MUT_U_INT_FLOAT, b_deref);
row1!(sound_deref_union_of_cells, 1 << K_UNARYOPERATION, T_U_MUTS, b_deref);
row1!(#[cfg(feature = "verif_thorough")] sound_neg_int, 1 << K_UNARYOPERATION, T_INT, b_neg);
row1!(#[cfg(feature = "verif_thorough")] sound_neg_float, 1 << K_UNARYOPERATION, T_FLOAT, b_neg);
row1!(#[cfg(feature = "verif_thorough")] sound_not_bool, 1 << K_UNARYOPERATION, T_BOOL, b_not);
row1!(#[cfg(feature = "verif_thorough")] sound_deref_cell_of_array, 1 << K_UNARYOPERATION, T_MUT_ARR_INT, b_deref);
row1!(#[cfg(feature = "verif_thorough")] sound_deref_rejects_array_or_cell, 1 << K_UNARYOPERATION, T_U_ARR_MUT, b_deref);

// ---- slicing ----------------------------------------------------------------------------------
fn b_slice(t: Type) -> Option<Instruction> {
    if !t.can_be_indexed() { return None; }
    Some(Slicing { lhs: iws(local("a", t)), start: Some(iws(local("i", Type::Int))), stop: None, step: Some(iws(Instruction::Variable(Variable::Int(-1)))) }.into())
}
row1!(sound_slicing_arr_int, 1 << K_SLICING, T_ARR_INT, b_slice);
row1!(sound_slicing_arr_union, 1 << K_SLICING, T_ARR_U_INT_FLOAT, b_slice);
row1!(sound_slicing_arr_never, 1 << K_SLICING, T_ARR_NEVER, b_slice);
row1!(sound_slicing_string, 1 << K_SLICING, T_STR, b_slice);
row1!(sound_slicing_union_of_arrays, 1 << K_SLICING, T_U_ARRS, b_slice);

// ---- literals ---------------------------------------------------------------------------------
fn b_array(t1: Type, t2: Type) -> Option<Instruction> {
    let element_type = t1.clone().concat(t2.clone());
    Some(crate::instruction::array::Array { instructions: Arc::from(crate::vv![iws(local("a", t1)), iws(local("b", t2))]), element_type }.into())
}
fn b_tuple(t1: Type, t2: Type) -> Option<Instruction> {
    Some(crate::instruction::tuple::Tuple { elements: Arc::from(crate::vv![iws(local("a", t1)), iws(local("b", t2))]) }.into())
}
fn b_struct(t1: Type, t2: Type) -> Option<Instruction> {
    Some(Struct { idents: Arc::from(crate::vv![Arc::<str>::from("x"), Arc::<str>::from("y")]), values: Arc::from(crate::vv![iws(local("a", t1)), iws(local("b", t2))]) }.into())
}
fn b_repeat(t1: Type, t2: Type) -> Option<Instruction> {
    if !t2.matches(&Type::Int) { return None; }
    // length kept small and possibly negative: `i & 3 - 1`
    let len: Instruction = BinOperation { lhs: BinOperation { lhs: local("b", t2), rhs: Instruction::Variable(Variable::Int(3)), op: crate::BinOperator::BitwiseAnd }.into(), rhs: Instruction::Variable(Variable::Int(1)), op: crate::BinOperator::Subtract }.into();
    Some(ArrayRepeat { value: iws(local("a", t1)), len: iws(len) }.into())
}
// array / tuple / struct literals run `Interpreter::exec` (iterator map + collect over a heap slice of
// instructions), which did not finish under CBMC (DESIGN.md §0.2): kept for reference, no tier enables them
row2!(#[cfg(feature = "verif_experimental")] sound_array_literal, 1 << K_ARRAY, T_U_INT_FLOAT, T_INT, b_array);
row2!(#[cfg(feature = "verif_experimental")] sound_tuple_literal, 1 << K_TUPLE, T_U_INT_FLOAT, T_INT, b_tuple);
row2!(#[cfg(feature = "verif_experimental")] sound_struct_literal, 1 << K_STRUCT, T_U_INT_FLOAT, T_INT, b_struct);
row2!(sound_array_repeat_int, (1 << K_ARRAYREPEAT) | (1 << K_BINOPERATION), T_INT, T_INT, b_repeat);
row2!(sound_array_repeat_union, (1 << K_ARRAYREPEAT) | (1 << K_BINOPERATION), T_U_INT_FLOAT, T_INT, b_repeat);
row2!(#[cfg(feature = "verif_thorough")] sound_array_repeat_never_array, (1 << K_ARRAYREPEAT) | (1 << K_BINOPERATION), T_ARR_NEVER, T_INT, b_repeat);
row2!(#[cfg(feature = "verif_thorough")] sound_array_repeat_cell, (1 << K_ARRAYREPEAT) | (1 << K_BINOPERATION), T_MUT_INT, T_INT, b_repeat);

// ---- element access -----------------------------------------------------------------------------
fn b_tuple_access_0(t: Type) -> Option<Instruction> {
    if !t.is_tuple() || t.min_tuple_len()? < 1 { return None; }
    Some(TupleAccess { tuple: iws(local("a", t)), index: 0 }.into())
}
fn b_tuple_access_1(t: Type) -> Option<Instruction> {
    if !t.is_tuple() || t.min_tuple_len()? < 2 { return None; }
    Some(TupleAccess { tuple: iws(local("a", t)), index: 1 }.into())
}
fn b_field_a(t: Type) -> Option<Instruction> {
    if !t.is_struct() || !t.has_field("a") { return None; }
    Some(FieldAccess { var: iws(local("a", t)), ident: "a".into() }.into())
}
fn b_field_b(t: Type) -> Option<Instruction> {
    if !t.is_struct() || !t.has_field("b") { return None; }
    Some(FieldAccess { var: iws(local("a", t)), ident: "b".into() }.into())
}
const ACC: u32 = (1 << K_TUPLEACCESS) | (1 << K_FIELDACCESS);
row1!(sound_tuple_access_1, ACC, T_TUP_INT_FLOAT, b_tuple_access_1);
row1!(sound_tuple_access_union_0, ACC, T_U_TUPS, b_tuple_access_0);
row1!(sound_tuple_access_union_1, ACC, T_U_TUPS, b_tuple_access_1);
row1!(sound_tuple_access_of_union_element, ACC, T_TUP_U_INT, b_tuple_access_0);
row1!(sound_field_b, ACC, T_ST_AB, b_field_b);
row1!(sound_field_union_a, ACC, T_U_STRUCTS, b_field_a);
row1!(sound_field_union_b, ACC, T_U_STRUCTS, b_field_b);
row1!(sound_field_of_union_type, ACC, T_ST_A_U, b_field_a);

// ---- mut ------------------------------------------------------------------------------------------
fn b_mut_same(t: Type) -> Option<Instruction> {
    Some(crate::instruction::r#mut::Mut { var_type: t.clone(), instruction: iws(local("a", t)) }.into())
}
fn b_mut_wider(t: Type) -> Option<Instruction> {
    let declared = Type::Int | Type::Float;
    if !t.matches(&declared) { return None; }
    Some(crate::instruction::r#mut::Mut { var_type: declared, instruction: iws(local("a", t)) }.into())
}
row1!(sound_mut_union, 1 << K_MUT, T_U_INT_FLOAT, b_mut_same);
row1!(sound_mut_wider_than_initialiser, 1 << K_MUT, T_INT, b_mut_wider);
row1!(sound_mut_of_cell, 1 << K_MUT, T_MUT_INT, b_mut_same);
row1!(#[cfg(feature = "verif_thorough")] sound_mut_array, 1 << K_MUT, T_ARR_INT, b_mut_same);

// ---- branching ------------------------------------------------------------------------------------
fn b_if(t1: Type, t2: Type) -> Option<Instruction> {
    Some(IfElse { condition: iws(local("c", Type::Bool)), if_true: iws(local("a", t1)), if_false: iws(local("b", t2)) }.into())
}
fn b_block(t1: Type, t2: Type) -> Option<Instruction> {
    Some(Block { instructions: Arc::from(crate::vv![iws(local("a", t1)), iws(local("b", t2))]) }.into())
}
fn b_if_set(t1: Type, t2: Type) -> Option<Instruction> {
    // if v: int|[int] = a { v } else { b }
    let narrowed = real(T_U_INT_ARR_INT);
    Some(SetIfElse { ident: "v".into(), var_type: narrowed.clone(), expression: iws(local("a", t1)), if_match: iws(local("v", narrowed)), else_instruction: iws(local("b", t2)) }.into())
}
fn b_match(t1: Type, t2: Type) -> Option<Instruction> {
    // match a { n: int => n, s: [int]|float => s, => b }
    let arm2 = real(T_ARR_INT) | Type::Float;
    let arms: Vec<MatchArm> = vec![
        MatchArm::Type { ident: "n".into(), var_type: Type::Int, instruction: iws(local("n", Type::Int)) },
        MatchArm::Type { ident: "s".into(), var_type: arm2.clone(), instruction: iws(local("s", arm2)) },
        MatchArm::Other(iws(local("b", t2))),
    ];
    Some(Match { expression: iws(local("a", t1)), arms: arms.into_boxed_slice() }.into())
}
macro_rules! branch_rows {
    ($b:ident, $kinds:expr, $n1:ident, $n2:ident, $n3:ident, $n4:ident, $n5:ident) => {
        row2!($n1, $kinds, T_INT, T_FLOAT, $b);
        row2!($n2, $kinds, T_U_INT_ARR_INT, T_INT, $b);
        row2!($n3, $kinds, T_ARR_U_INT_FLOAT, T_VOID, $b);
        row2!($n4, $kinds, T_ANY, T_INT, $b);
        row2!(#[cfg(feature = "verif_thorough")] $n5, $kinds, T_U_INT_FLOAT, T_STR, $b);
    };
}
branch_rows!(b_if, 1 << K_IFELSE, sound_if_else_int_float, sound_if_else_union, sound_if_else_array_void, sound_if_else_any, sound_if_else_union_string);
branch_rows!(b_block, 1 << K_BLOCK, sound_block_int_float, sound_block_union, sound_block_array_void, sound_block_any, sound_block_union_string);
branch_rows!(b_if_set, 1 << K_SETIFELSE, sound_if_set_int_float, sound_if_set_union, sound_if_set_array_void, sound_if_set_any, sound_if_set_union_string);
branch_rows!(b_match, 1 << K_MATCH, sound_match_int_float, sound_match_union, sound_match_array_void, sound_match_any, sound_match_union_string);

// ---- function values ----------------------------------------------------------------------------------
/// f := (p: T) -> T { return p } ; also when the parameter is called like the function;  a body that
/// falls off its end yields (), which is what a function declared `-> ()` reports
fn call_identity(t: Ty, param_named_like_function: bool) {
    let name: Arc<str> = if param_named_like_function { "f".into() } else { "p".into() };
    let rt = real(t);
    let ret: Instruction = UnaryOperation { instruction: local(if param_named_like_function { "f" } else { "p" }, rt.clone()), op: UnaryOperator::Return }.into();
    let f: Arc<Function> = Arc::new(Function {
        ident: Some("f".into()),
        params: Params(Arc::from(crate::vv![Param { name, var_type: rt.clone() }])),
        body: Body::Lang(Arc::from(crate::vv![iws(ret)])),
        return_type: rt.clone(),
    });
    let mut k = 0;
    while k < n_vals(t) {
        let r = crate::instruction::function::call::exec(Variable::Function(f.clone()), Variable::Tuple(Arc::from(crate::vv![val(t, k)])));
        match r {
            Ok(v) => assert!(sound(&v, &rt)),
            Err(_) => (),
        }
        k += 1;
    }
}
macro_rules! call_row {
    ($name:ident, $t:expr, $same_name:expr) => {
        #[kani::proof]
        #[kani::unwind(6)]
        #[kani::stub(alloc::fmt::format, crate::verif_common::stub_format)]
        pub fn $name() { declare(1 << K_UNARYOPERATION); crate::verif_model::set_order(0); call_identity($t, $same_name); kani::cover!(true); }
    };
}
call_row!(sound_function_result_int, T_INT, false);
call_row!(sound_function_result_param_named_like_function, T_INT, true);
call_row!(sound_function_result_union, T_U_INT_FLOAT, false);
call_row!(sound_function_result_array, T_ARR_INT, true);
#[kani::proof]
#[kani::unwind(6)]
#[kani::stub(alloc::fmt::format, crate::verif_common::stub_format)]
pub fn sound_function_falls_off_its_end() {
    declare(0);
    let g: Arc<Function> = Arc::new(Function { ident: None, params: Params(Arc::from(Vec::new())), body: Body::Lang(Arc::from(crate::vv![iws(Instruction::Variable(Variable::Int(1)))])), return_type: Type::Void });
    let r = g.exec_with_args(&[]);
    assert!(matches!(r, Ok(ref v) if sound(v, &Type::Void)));
    kani::cover!(true);
}
