//@ inject: src/instruction/bin_op.rs
//@ modname: verif_c01_binop
//@ property: C01
//@ tier: quick

//! C01 (local type soundness of binary operators, also read as C02: no panic under the checker's
//! own admissibility test).  For every operator, every pair of operand static types of the universe
//! that `can_be_used` accepts, and every witness value of those types (union members / empty and
//! non-empty arrays enumerated, scalars symbolic): executing the operation either fails with a
//! documented error or yields a value that belongs - by contents and by tag - to the static type
//! `BinOperation::return_type` reports.  Operands are `LocalVariable`s of the given static type bound
//! in the interpreter, so the operator's real `return_type` and `exec` run unmodified.
use super::*;
use crate::instruction::{Exec, ExecStop};
use crate::verif_common::*;
use crate::verif_model::Arc;

fn declare() {
    use crate::instruction::verif_gate::*;
    scalar_ops_only();
    allow_mask((1 << K_VARIABLE) | (1 << K_BINOPERATION));
}

/// one (operator, lhs type, rhs type) cell of the table.  The static side (`can_be_used`,
/// `return_type`) sees operands of the declared static types (local variables); the dynamic side runs the
/// same operator on witness values of those types (constants: `BinOperation::exec` does not look at
/// the static types of its operands).
fn cell(op: BinOperator, t1: Ty, t2: Ty) -> bool {
    let (s1, s2) = (real(t1), real(t2));
    if !can_be_used(&s1, &s2, op) {
        return false;
    }
    let rt = BinOperation { lhs: local("a", s1), rhs: local("b", s2), op }.return_type();
    let mut k1 = 0;
    while k1 < n_vals(t1) {
        let mut k2 = 0;
        while k2 < n_vals(t2) {
            let (v1, v2) = (val(t1, k1), val(t2, k2));
            if matches!(op, BinOperator::Pow) {
                if let Variable::Int(e) = &v2 { kani::assume(*e < 3); }
            }
            let mut interp = Interpreter::without_stdlib();
            let ins = BinOperation { lhs: Instruction::Variable(v1), rhs: Instruction::Variable(v2), op };
            match ins.exec(&mut interp) {
                Ok(r) => assert!(sound(&r, &rt)),
                Err(ExecStop::Error(_)) => (),
                Err(_) => panic!("control signal escaped a binary operator"),
            }
            k2 += 1;
        }
        k1 += 1;
    }
    true
}

macro_rules! row {
    ($op:expr, $t1:expr; $($t2:expr),*) => { $( cell($op, $t1, $t2); )* };
}
/// three harnesses per operator: scalar rows, array rows, union / any rows
macro_rules! table {
    ($(#[$m:meta])* $scalars:ident, $arrays:ident, $unions:ident, $op:expr) => {
        $(#[$m])*
        #[kani::proof]
        #[kani::unwind(6)]
        #[kani::stub(alloc::fmt::format, crate::verif_common::stub_format)]
        pub fn $scalars() {
            declare();
            crate::verif_model::set_order(0);
            row!($op, T_INT; T_INT, T_FLOAT, T_BOOL, T_STR, T_ARR_INT, T_U_INT_FLOAT, T_ANY);
            row!($op, T_FLOAT; T_INT, T_FLOAT, T_U_INT_FLOAT);
            row!($op, T_BOOL; T_BOOL, T_INT);
            row!($op, T_STR; T_STR, T_INT, T_ARR_INT);
            kani::cover!(true);
        }
        $(#[$m])*
        #[kani::proof]
        #[kani::unwind(6)]
        #[kani::stub(alloc::fmt::format, crate::verif_common::stub_format)]
        pub fn $arrays() {
            declare();
            crate::verif_model::set_order(0);
            row!($op, T_ARR_INT; T_ARR_INT, T_ARR_FLOAT, T_ARR_ANY, T_ARR_NEVER, T_INT, T_STR);
            row!($op, T_ARR_NEVER; T_ARR_INT, T_ARR_NEVER);
            kani::cover!(true);
        }
        $(#[$m])*
        #[kani::proof]
        #[kani::unwind(6)]
        #[kani::stub(alloc::fmt::format, crate::verif_common::stub_format)]
        pub fn $unions() {
            declare();
            crate::verif_model::set_order(0);
            row!($op, T_U_INT_FLOAT; T_INT, T_U_INT_FLOAT);
            row!($op, T_U_INT_ARR_INT; T_INT, T_U_INT_ARR_INT);
            row!($op, T_ANY; T_INT, T_ANY);
            kani::cover!(true);
        }
    };
}
table!(sound_add_scalars, sound_add_arrays, sound_add_unions, BinOperator::Add);
table!(sound_subtract_scalars, sound_subtract_arrays, sound_subtract_unions, BinOperator::Subtract);
table!(sound_divide_scalars, sound_divide_arrays, sound_divide_unions, BinOperator::Divide);
table!(sound_lshift_scalars, sound_lshift_arrays, sound_lshift_unions, BinOperator::LShift);
table!(sound_bitand_scalars, sound_bitand_arrays, sound_bitand_unions, BinOperator::BitwiseAnd);
table!(sound_equal_scalars, sound_equal_arrays, sound_equal_unions, BinOperator::Equal);
table!(sound_greater_scalars, sound_greater_arrays, sound_greater_unions, BinOperator::Greater);
table!(sound_and_scalars, sound_and_arrays, sound_and_unions, BinOperator::And);
table!(#[cfg(feature = "verif_thorough")] sound_multiply_scalars, sound_multiply_arrays, sound_multiply_unions, BinOperator::Multiply);
table!(#[cfg(feature = "verif_thorough")] sound_modulo_scalars, sound_modulo_arrays, sound_modulo_unions, BinOperator::Modulo);
table!(#[cfg(feature = "verif_thorough")] sound_pow_scalars, sound_pow_arrays, sound_pow_unions, BinOperator::Pow);
table!(#[cfg(feature = "verif_thorough")] sound_rshift_scalars, sound_rshift_arrays, sound_rshift_unions, BinOperator::RShift);
table!(#[cfg(feature = "verif_thorough")] sound_bitor_scalars, sound_bitor_arrays, sound_bitor_unions, BinOperator::BitwiseOr);
table!(#[cfg(feature = "verif_thorough")] sound_xor_scalars, sound_xor_arrays, sound_xor_unions, BinOperator::Xor);
table!(#[cfg(feature = "verif_thorough")] sound_not_equal_scalars, sound_not_equal_arrays, sound_not_equal_unions, BinOperator::NotEqual);
table!(#[cfg(feature = "verif_thorough")] sound_lower_equal_scalars, sound_lower_equal_arrays, sound_lower_equal_unions, BinOperator::LowerOrEqual);
table!(#[cfg(feature = "verif_thorough")] sound_or_scalars, sound_or_arrays, sound_or_unions, BinOperator::Or);

/// indexing: admissibility as in at::create (index static type == int, sequence can_be_indexed)
fn at_cell(t1: Ty) {
    let s1 = real(t1);
    if !s1.can_be_indexed() {
        return;
    }
    let rt = BinOperation { lhs: local("a", s1), rhs: local("b", Type::Int), op: BinOperator::At }.return_type();
    let mut k1 = 0;
    while k1 < n_vals(t1) {
        let i: i64 = kani::any();
        let mut interp = Interpreter::without_stdlib();
        let ins = BinOperation { lhs: Instruction::Variable(val(t1, k1)), rhs: Instruction::Variable(Variable::Int(i)), op: BinOperator::At };
        match ins.exec(&mut interp) {
            Ok(r) => assert!(sound(&r, &rt)),
            Err(ExecStop::Error(e)) => assert!(matches!(e, ExecError::IndexOutOfBounds)),
            Err(_) => panic!("control signal escaped indexing"),
        }
        k1 += 1;
    }
}
#[kani::proof]
#[kani::unwind(6)]
#[kani::stub(alloc::fmt::format, crate::verif_common::stub_format)]
pub fn sound_at_arrays() {
    declare();
    crate::verif_model::set_order(0);
    at_cell(T_ARR_INT);
    at_cell(T_ARR_U_INT_FLOAT);
    at_cell(T_ARR_ANY);
    at_cell(T_ARR_NEVER);
    kani::cover!(true);
}
#[kani::proof]
#[kani::unwind(6)]
#[kani::stub(alloc::fmt::format, crate::verif_common::stub_format)]
pub fn sound_at_strings_and_unions() {
    declare();
    crate::verif_model::set_order(0);
    at_cell(T_STR);
    at_cell(T_U_ARRS);
    at_cell(T_INT);
    at_cell(T_U_INT_ARR_INT);
    kani::cover!(true);
}
