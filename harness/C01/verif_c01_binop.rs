//@ inject: src/instruction/bin_op.rs
//@ modname: verif_c01_binop
//@ property: C01
//@ tier: quick

//! C01 (local type soundness of binary operators, also read as C02: no panic under the checker's
//! own admissibility test).  For every operator, every pair of operand static types of the universe
//! that `can_be_used` accepts, and every witness value of those types (union members / empty and
//! non-empty arrays enumerated, scalars symbolic): executing the operation either fails with a
//! documented error or yields a value that belongs - by contents and by tag - to the static type
//! `BinOperation::return_type` reports.  Operands are `LocalVariable`s of the given static type bound
//! in the interpreter, so the operator's real `return_type` and `exec` run unmodified.
use super::*;
use crate::instruction::{Exec, ExecStop};
use crate::verif_common::*;
use crate::verif_model::Arc;

fn declare() {
    use crate::instruction::verif_gate::*;
    scalar_ops_only();
    allow_mask((1 << K_VARIABLE) | (1 << K_BINOPERATION));
}

/// one (operator, lhs type, rhs type) cell of the table
fn cell(op: BinOperator, t1: Ty, t2: Ty) -> bool {
    let (s1, s2) = (real(t1), real(t2));
    if !can_be_used(&s1, &s2, op) {
        return false;
    }
    let ins = BinOperation { lhs: local("a", s1), rhs: local("b", s2), op };
    let rt = ins.return_type();
    let mut k1 = 0;
    while k1 < n_vals(t1) {
        let mut k2 = 0;
        while k2 < n_vals(t2) {
            let (v1, v2) = (val(t1, k1), val(t2, k2));
            if matches!(op, BinOperator::Pow) {
                if let Variable::Int(e) = &v2 { kani::assume(*e < 3); }
            }
            let mut interp = Interpreter::without_stdlib();
            interp.insert("a".into(), v1);
            interp.insert("b".into(), v2);
            match ins.exec(&mut interp) {
                Ok(r) => assert!(sound(&r, &rt)),
                Err(ExecStop::Error(_)) => (),
                Err(_) => panic!("control signal escaped a binary operator"),
            }
            k2 += 1;
        }
        k1 += 1;
    }
    true
}

macro_rules! row {
    ($op:expr, $t1:expr; $($t2:expr),*) => { $( cell($op, $t1, $t2); )* };
}
macro_rules! table {
    ($name:ident, $op:expr) => {
        #[kani::proof]
        #[kani::unwind(6)]
        #[kani::stub(alloc::fmt::format, crate::verif_common::stub_format)]
        pub fn $name() {
            declare();
            crate::verif_model::set_order(0);
            row!($op, T_INT; T_INT, T_FLOAT, T_BOOL, T_STR, T_ARR_INT, T_U_INT_FLOAT, T_ANY);
            row!($op, T_FLOAT; T_INT, T_FLOAT, T_U_INT_FLOAT);
            row!($op, T_BOOL; T_BOOL, T_INT);
            row!($op, T_STR; T_STR, T_INT, T_ARR_INT);
            row!($op, T_ARR_INT; T_ARR_INT, T_ARR_FLOAT, T_ARR_ANY, T_ARR_NEVER, T_INT, T_STR);
            row!($op, T_ARR_NEVER; T_ARR_INT, T_ARR_NEVER);
            row!($op, T_U_INT_FLOAT; T_INT, T_U_INT_FLOAT);
            row!($op, T_U_INT_ARR_INT; T_INT, T_U_INT_ARR_INT);
            row!($op, T_ANY; T_INT, T_ANY);
            // the admissibility test accepted the obvious well-typed instance (non-vacuity)
            kani::cover!(true);
        }
    };
}
table!(sound_add, BinOperator::Add);
table!(sound_subtract, BinOperator::Subtract);
table!(sound_multiply, BinOperator::Multiply);
table!(sound_divide, BinOperator::Divide);
table!(sound_modulo, BinOperator::Modulo);
table!(sound_pow, BinOperator::Pow);
table!(sound_lshift, BinOperator::LShift);
table!(sound_rshift, BinOperator::RShift);
table!(sound_bitand, BinOperator::BitwiseAnd);
table!(sound_bitor, BinOperator::BitwiseOr);
table!(sound_xor, BinOperator::Xor);
table!(sound_equal, BinOperator::Equal);
table!(sound_not_equal, BinOperator::NotEqual);
table!(sound_greater, BinOperator::Greater);
table!(sound_lower_equal, BinOperator::LowerOrEqual);
table!(sound_and, BinOperator::And);
table!(sound_or, BinOperator::Or);

/// indexing: admissibility as in at::create (index static type == int, sequence can_be_indexed)
fn at_cell(t1: Ty) {
    let s1 = real(t1);
    if !s1.can_be_indexed() {
        return;
    }
    let ins = BinOperation { lhs: local("a", s1), rhs: local("b", Type::Int), op: BinOperator::At };
    let rt = ins.return_type();
    let mut k1 = 0;
    while k1 < n_vals(t1) {
        let i: i64 = kani::any();
        let mut interp = Interpreter::without_stdlib();
        interp.insert("a".into(), val(t1, k1));
        interp.insert("b".into(), Variable::Int(i));
        match ins.exec(&mut interp) {
            Ok(r) => assert!(sound(&r, &rt)),
            Err(ExecStop::Error(e)) => assert!(matches!(e, ExecError::IndexOutOfBounds)),
            Err(_) => panic!("control signal escaped indexing"),
        }
        k1 += 1;
    }
}
#[kani::proof]
#[kani::unwind(6)]
#[kani::stub(alloc::fmt::format, crate::verif_common::stub_format)]
pub fn sound_at() {
    declare();
    crate::verif_model::set_order(0);
    at_cell(T_ARR_INT);
    at_cell(T_ARR_U_INT_FLOAT);
    at_cell(T_ARR_ANY);
    at_cell(T_ARR_NEVER);
    at_cell(T_STR);
    at_cell(T_U_ARRS);
    at_cell(T_INT);
    at_cell(T_U_INT_ARR_INT);
    kani::cover!(true);
}
