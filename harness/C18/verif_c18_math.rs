//@ inject: src/stdlib/math.rs
//@ modname: verif_c18_math
//@ property: C18
//@ tier: quick

//! C18 (std.math, std.convert bodies): the Rust bodies behind the exported functions, on ALL
//! arguments of their declared parameter types, never panic and return what docs/stdlib.md states
//! (closed forms written here independently of the std intrinsics the bodies use).
use super::inner::*;

/// bit counting against a bit-by-bit reference (loop over 64 bits, unwind 65)
fn ref_count_ones(x: i64) -> u32 {
    let mut n = 0;
    let mut i = 0;
    while i < 64 {
        if (x >> i) & 1 == 1 { n += 1; }
        i += 1;
    }
    n
}
fn ref_leading(x: i64, bit: i64) -> u32 {
    let mut n = 0;
    let mut i = 63;
    while i >= 0 {
        if (x >> i) & 1 == bit { n += 1; } else { return n; }
        i -= 1;
    }
    n
}
fn ref_trailing(x: i64, bit: i64) -> u32 {
    let mut n = 0;
    let mut i = 0;
    while i < 64 {
        if (x >> i) & 1 == bit { n += 1; } else { return n; }
        i += 1;
    }
    n
}
#[kani::proof]
#[kani::unwind(66)]
pub fn bit_counting() {
    let x: i64 = kani::any();
    assert!(count_ones(x) == ref_count_ones(x));
    assert!(count_zeros(x) == 64 - ref_count_ones(x));
    assert!(leading_zeroes(x) == ref_leading(x, 0));
    assert!(leading_ones(x) == ref_leading(x, 1));
    assert!(trailing_zeroes(x) == ref_trailing(x, 0));
    assert!(trailing_ones(x) == ref_trailing(x, 1));
    kani::cover!(x == 0);
    kani::cover!(x == -1);
}
#[kani::proof]
#[kani::unwind(66)]
pub fn byte_and_bit_reversal() {
    let x: i64 = kani::any();
    let r = reverse_bits(x);
    let i: u32 = kani::any();
    kani::assume(i < 64);
    assert!(((r >> i) & 1) == ((x >> (63 - i)) & 1));
    let sw = swap_bytes(x);
    let b: u32 = kani::any();
    kani::assume(b < 8);
    assert!(((sw >> (8 * b)) & 0xff) == ((x >> (8 * (7 - b))) & 0xff));
    kani::cover!(true);
}
/// integer logarithms: () iff num <= 0 (or base < 2); otherwise base^r <= num < base^(r+1)
#[kani::proof]
#[kani::unwind(66)]
pub fn ilog2_spec() {
    let x: i64 = kani::any();
    match ilog2(x) {
        None => assert!(x <= 0),
        Some(r) => {
            assert!(x > 0 && r < 63);
            assert!((1i128 << r) <= x as i128 && (x as i128) < (1i128 << (r + 1)));
        }
    }
    kani::cover!(x > 0);
    kani::cover!(x <= 0);
}
#[kani::proof]
#[kani::unwind(22)]
pub fn ilog10_spec() {
    let x: i64 = kani::any();
    match ilog10(x) {
        None => assert!(x <= 0),
        Some(r) => {
            assert!(x > 0 && r <= 18);
            let mut p: i128 = 1;
            let mut i = 0;
            while i < r { p *= 10; i += 1; }
            assert!(p <= x as i128 && (x as i128) < p * 10);
        }
    }
    kani::cover!(x > 0);
}
/// `ilog(x, b)` for a CONSTANT base b (one harness per base: with a symbolic base in -1..=4 the 128-bit products
/// by a symbolic factor needed > 14 GB)
fn ilog_base_spec(base: i64) {
    let x: i64 = kani::any();
    match ilog(x, base) {
        None => assert!(x <= 0 || base < 2),
        Some(r) => {
            assert!(x > 0 && base >= 2 && r <= 62);
            let mut p: i128 = 1;
            let mut i = 0;
            while i < r { p *= base as i128; i += 1; }
            assert!(p <= x as i128 && (x as i128) < p * base as i128);
        }
    }
    kani::cover!(x > 0);
}
#[kani::proof]
#[kani::unwind(66)]
pub fn ilog_base2_spec() { ilog_base_spec(2); }
#[kani::proof]
#[kani::unwind(66)]
pub fn ilog_base3_spec() { ilog_base_spec(3); }
#[kani::proof]
#[kani::unwind(66)]
pub fn ilog_base4_spec() { ilog_base_spec(4); }
/// bases below 2 never have a logarithm, whatever x
#[kani::proof]
#[kani::unwind(66)]
pub fn ilog_bases_below_2_spec() {
    let x: i64 = kani::any();
    assert!(ilog(x, 1).is_none() && ilog(x, 0).is_none() && ilog(x, -1).is_none());
    kani::cover!(x > 0);
}
/// `ilog` is () exactly when docs say so, for every base
#[kani::proof]
#[kani::unwind(66)]
pub fn ilog_none_iff() {
    let x: i64 = kani::any();
    let base: i64 = kani::any();
    kani::assume(x < 16); // bounds the loop in checked_ilog; the large-x side is ilog_base{2,3,4}_spec
    assert!(ilog(x, base).is_none() == (x <= 0 || base < 2));
    kani::cover!(ilog(x, base).is_some());
}
/// float classification and bit conversion
#[kani::proof]
#[kani::unwind(3)]
pub fn float_predicates_and_bits() {
    let f: f64 = kani::any();
    let bits = f.to_bits();
    let exp = (bits >> 52) & 0x7ff;
    let frac = bits & ((1u64 << 52) - 1);
    assert!(is_nan(f) == (exp == 0x7ff && frac != 0));
    assert!(is_infinite(f) == (exp == 0x7ff && frac == 0));
    assert!(is_finite(f) == (exp != 0x7ff));
    assert!(is_normal(f) == (exp != 0x7ff && exp != 0));
    assert!(is_subnormal(f) == (exp == 0 && frac != 0));
    assert!(is_sign_negative(f) == (bits >> 63 == 1));
    assert!(is_sign_positive(f) == (bits >> 63 == 0));
    assert!(to_bits(f) == bits as i64);
    let i: i64 = kani::any();
    assert!(from_bits(i).to_bits() == i as u64);
    kani::cover!(is_subnormal(f));
}
/// rounding functions: integral result bracketing the argument as documented
#[kani::proof]
#[kani::unwind(3)]
pub fn rounding_spec() {
    let f: f64 = kani::any();
    kani::assume(f.is_finite());
    let (fl, ce, tr) = (floor(f), ceil(f), trunc(f));
    assert!(fl <= f && f < fl + 1.0 || fl == f);
    assert!(ce >= f && f > ce - 1.0 || ce == f);
    assert!(fl == fl.trunc() && ce == ce.trunc() && tr == tr.trunc());
    assert!(if f >= 0.0 { tr == fl } else { tr == ce });
    assert!(fract(f) == f - tr);
    kani::cover!(f < 0.0 && fl != f);
}
