//@ inject: src/stdlib/convert.rs
//@ modname: verif_c18_convert
//@ property: C18
//@ tier: quick

//! C18 (std.convert.to_int / to_float): total on int|float, documented saturating cast.
use super::inner::*;
use crate::verif_common::*;

#[kani::proof]
#[kani::unwind(3)]
#[kani::stub(alloc::fmt::format, crate::verif_common::stub_format)]
pub fn to_int_to_float_total() {
    let i: i64 = kani::any();
    let f: f64 = kani::any();
    assert!(to_int(&Variable::Int(i)) == i);
    assert!(to_float(&Variable::Float(f)).to_bits() == f.to_bits());
    let r = to_int(&Variable::Float(f));
    // `as` cast: NaN -> 0, saturating at the ends, truncation toward zero inside
    if f.is_nan() { assert!(r == 0); }
    else if f >= 9223372036854775808.0 { assert!(r == i64::MAX); }
    else if f <= -9223372036854775808.0 { assert!(r == i64::MIN); }
    else { assert!((r as f64) == f.trunc() || (r as f64 - f).abs() < 1.0); }
    let g = to_float(&Variable::Int(i));
    assert!(g.is_finite());
    kani::cover!(f.is_nan());
    kani::cover!(f > 1e300);
}
