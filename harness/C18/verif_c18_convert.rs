//@ inject: src/stdlib/convert.rs
//@ modname: verif_c18_convert
//@ property: C18
//@ tier: quick

//! C18 (std.convert.to_int / to_float): total on int|float, documented saturating cast.
use super::inner::*;
use crate::verif_common::*;

#[kani::proof]
#[kani::unwind(3)]
#[kani::stub(alloc::fmt::format, crate::verif_common::stub_format)]
pub fn to_int_to_float_total() {
    let i: i64 = kani::any();
    let f: f64 = kani::any();
    assert!(to_int(&Variable::Int(i)) == i);
    assert!(to_float(&Variable::Float(f)).to_bits() == f.to_bits());
    let r = to_int(&Variable::Float(f));
    // `as` cast: NaN -> 0, saturating at the ends, truncation toward zero inside
    if f.is_nan() { assert!(r == 0); }
    else if f >= 9223372036854775808.0 { assert!(r == i64::MAX); }
    else if f <= -9223372036854775808.0 { assert!(r == i64::MIN); }
    else { assert!((r as f64) == f.trunc() || (r as f64 - f).abs() < 1.0); }
    let g = to_float(&Variable::Int(i));
    assert!(g.is_finite());
    kani::cover!(f.is_nan());
    kani::cover!(f > 1e300);
}

/// std.convert.parse_int on EVERY ASCII string of length 0..=2: an int exactly for [+-]?digit+
/// (decimal), () otherwise
#[kani::proof]
#[kani::unwind(6)]
#[kani::stub(alloc::fmt::format, crate::verif_common::stub_format)]
pub fn parse_int_short_ascii() {
    assert!(parse_int("").is_none());
    let b: [u8; 2] = [kani::any(), kani::any()];
    kani::assume(b[0] < 0x80 && b[1] < 0x80);
    let digit = |c: u8| c >= b'0' && c <= b'9';
    let val = |c: u8| (c - b'0') as i64;
    // one character
    let s1 = match std::str::from_utf8(&b[..1]) { Ok(s) => s, Err(_) => unreachable!() };
    match parse_int(s1) {
        Some(v) => assert!(digit(b[0]) && v == val(b[0])),
        None => assert!(!digit(b[0])),
    }
    // two characters
    let s2 = match std::str::from_utf8(&b) { Ok(s) => s, Err(_) => unreachable!() };
    let expect = if digit(b[0]) && digit(b[1]) {
        Some(val(b[0]) * 10 + val(b[1]))
    } else if b[0] == b'-' && digit(b[1]) {
        Some(-val(b[1]))
    } else if b[0] == b'+' && digit(b[1]) {
        Some(val(b[1]))
    } else {
        None
    };
    assert!(parse_int(s2) == expect);
    kani::cover!(expect.is_some());
    kani::cover!(b[0] == b'-');
}
