//@ inject: src/stdlib/string.rs
//@ modname: verif_c18_string
//@ property: C18
//@ tier: quick

//! C18 (std.string byte helpers): `str_from_utf8` / `str_from_utf8_lossy` are total on EVERY array
//! of ints of length 0..=2 (each element a full-width symbolic i64, taken modulo 256 as the cast in
//! the body does) and answer what docs/stdlib.md states; `bytes` / `chars` on the fixed strings.
use super::inner::*;
use crate::verif_common::*;
use crate::variable::Variable;

fn ints(n: usize) -> (Vec<Variable>, [i64; 2]) {
    let xs: [i64; 2] = [kani::any(), kani::any()];
    let mut v = crate::vv![];
    let mut i = 0;
    while i < n {
        v.push(Variable::Int(xs[i]));
        i += 1;
    }
    (v, xs)
}
/// reference validity of a 1- or 2-byte sequence (Unicode standard, table 3-7)
fn valid1(b: u8) -> bool { b < 0x80 }
fn valid2(b0: u8, b1: u8) -> bool {
    (valid1(b0) && valid1(b1)) || (b0 >= 0xC2 && b0 <= 0xDF && b1 >= 0x80 && b1 <= 0xBF)
}

#[kani::proof]
#[kani::unwind(8)]
#[kani::stub(alloc::fmt::format, crate::verif_common::stub_format)]
pub fn str_from_utf8_len0_len1() {
    let (v0, _) = ints(0);
    assert!(matches!(str_from_utf8(&v0), Some(s) if s.is_empty()));
    let (v1, xs) = ints(1);
    let b = xs[0] as u8;
    match str_from_utf8(&v1) {
        Some(s) => { assert!(valid1(b)); assert!(s.len() == 1 && s.as_bytes()[0] == b); }
        None => assert!(!valid1(b)),
    }
    kani::cover!(xs[0] > 255);
    kani::cover!(xs[0] < 0);
}
#[kani::proof]
#[kani::unwind(8)]
#[kani::stub(alloc::fmt::format, crate::verif_common::stub_format)]
pub fn str_from_utf8_len2() {
    let (v2, xs) = ints(2);
    let (b0, b1) = (xs[0] as u8, xs[1] as u8);
    match str_from_utf8(&v2) {
        Some(s) => { assert!(valid2(b0, b1)); assert!(s.len() == 2 && s.as_bytes()[0] == b0 && s.as_bytes()[1] == b1); }
        None => assert!(!valid2(b0, b1)),
    }
    kani::cover!(xs[0] > 255 && xs[1] < 0);
}
#[kani::proof]
#[kani::unwind(8)]
#[kani::stub(alloc::fmt::format, crate::verif_common::stub_format)]
pub fn str_from_utf8_lossy_len0_len1() {
    let (v0, _) = ints(0);
    assert!(str_from_utf8_lossy(&v0).is_empty());
    let (v1, xs) = ints(1);
    let b = xs[0] as u8;
    let s = str_from_utf8_lossy(&v1);
    if valid1(b) {
        assert!(s.len() == 1 && s.as_bytes()[0] == b);
    } else {
        // U+FFFD REPLACEMENT CHARACTER = EF BF BD
        assert!(s.len() == 3 && s.as_bytes()[0] == 0xEF && s.as_bytes()[1] == 0xBF && s.as_bytes()[2] == 0xBD);
    }
    kani::cover!(xs[0] > 255);
    kani::cover!(xs[0] < 0);
}
/// bytes / chars of the fixed strings: ints in 0..=255 in order / one string per scalar value
#[kani::proof]
#[kani::unwind(8)]
#[kani::stub(alloc::fmt::format, crate::verif_common::stub_format)]
pub fn bytes_and_chars_fixed() {
    let b = bytes("a\u{e9}");
    assert!(b.len() == 3);
    assert!(as_int(&b[0]) == Some(0x61) && as_int(&b[1]) == Some(0xC3) && as_int(&b[2]) == Some(0xA9));
    assert!(bytes("").len() == 0);
    let c = chars("a\u{e9}");
    assert!(c.len() == 2);
    assert!(matches!(&c[0], Variable::String(s) if &**s == "a"));
    assert!(matches!(&c[1], Variable::String(s) if &**s == "\u{e9}"));
    kani::cover!(true);
}
