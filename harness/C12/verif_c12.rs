//@ inject: src/instruction.rs
//@ modname: verif_c12
//@ property: C12
//@ tier: quick

//! C12 - control flow selects and exits exactly the documented construct.
//! Hand-built trees of depth <= 3 (concrete shapes, declared to the kind gate), scrutinees /
//! counters / markers symbolic.
//! Harnesses marked `verif_experimental` (no tier enables them) did not reach a verdict: 1500 s
//! timeout or the 14 GB memory cap (scrutinees that fall through the first type arm, array scrutinees,
//! counted loops with two or more iterations, folded matches).
use super::*;
use crate::function::{Body, Function, Params};
use crate::instruction::block::Block;
use crate::instruction::control_flow::match_arm::MatchArm;
use crate::instruction::control_flow::{IfElse, Match, SetIfElse};
use crate::instruction::local_variable::LocalVariables;
use crate::instruction::r#loop::Loop;
use crate::unary_operator::UnaryOperator;
use crate::verif_common::*;
use crate::verif_model::Arc;
use crate::BinOperator;

/// Declared shape, level by level (lib/patch.py `verif_gate`): which instruction kinds occur at
/// nesting depth 0, 1, 2 and >= 3 of the scenario's tree (as built and as folded).  Operators are
/// declared globally (the three binary and two prefix operators used in this file).
fn levels(l0: u32, l1: u32, l2: u32, l3: u32) {
    use crate::instruction::verif_gate::*;
    allow_binops(b(crate::BinOperator::AssignAdd) | b(crate::BinOperator::GreaterOrEqual) | b(crate::BinOperator::Modulo));
    allow_unops(u(crate::unary_operator::UnaryOperator::Return) | u(crate::unary_operator::UnaryOperator::Indirection));
    allow_mask(u32::MAX);
    crate::variable::verif_valgate::allow_vals(0);
    allow_at(0, l0, u64::MAX);
    allow_at(1, l1, u64::MAX);
    allow_at(2, l2, u64::MAX);
    allow_at(3, l3, u64::MAX);
}
use crate::instruction::verif_gate::{K_BINOPERATION, K_BLOCK, K_IFELSE, K_LOOP, K_MATCH, K_SETIFELSE, K_UNARYOPERATION, K_VARIABLE};
const V: u32 = 1 << K_VARIABLE;
const BO: u32 = 1 << K_BINOPERATION;
const UO: u32 = 1 << K_UNARYOPERATION;
const BL: u32 = 1 << K_BLOCK;
const IE: u32 = 1 << K_IFELSE;
const LP: u32 = 1 << K_LOOP;
fn iws(i: Instruction) -> InstructionWithStr {
    InstructionWithStr { instruction: i, str: "e".into() }
}
fn konst(v: i64) -> Instruction {
    Instruction::Variable(Variable::Int(v))
}
fn run(i: &Instruction) -> Result<Variable, ExecStop> {
    let mut interp = Interpreter::without_stdlib();
    i.exec(&mut interp)
}
fn folded(i: &Instruction) -> Instruction {
    let interp = Interpreter::without_stdlib();
    let mut lv = LocalVariables::new(&interp);
    let r = match i.recreate(&mut lv) {
        Ok(t) => t,
        Err(_) => panic!("the folding pass rejected the tree"),
    };
    std::mem::forget(lv);
    r
}
fn is_int(r: &Result<Variable, ExecStop>, x: i64) -> bool {
    matches!(r, Ok(Variable::Int(v)) if *v == x)
}

// ---------------------------------------------------------------------------------------------
// match: arms  (7), (x2) => 10 ; n: int => 20 ; f: int|float => 30 ; => 40
fn the_match(scrutinee: Variable, x2: i64) -> Instruction {
    let arms: Vec<MatchArm> = vec![
        MatchArm::Value(Arc::from(crate::vv![iws(konst(7)), iws(konst(x2))]), iws(konst(10))),
        MatchArm::Type { ident: "n".into(), var_type: Type::Int, instruction: iws(konst(20)) },
        MatchArm::Type { ident: "f".into(), var_type: Type::Int | Type::Float, instruction: iws(konst(30)) },
        MatchArm::Other(iws(konst(40))),
    ];
    Match { expression: iws(Instruction::Variable(scrutinee)), arms: arms.into_boxed_slice() }.into()
}
/// kind of the scrutinee enumerated concretely (0 int, 1 float, 2 string, 3 array, 4 ()), value symbolic
fn match_selects(kind: u8, fold: bool) {
    // a constant scrutinee lets the folding pass keep only the selected arm
    levels((1 << K_MATCH) | if fold { V } else { 0 }, V, 0, 0);
    crate::variable::verif_valgate::allow_vals((1 << crate::variable::verif_valgate::V_ARRAY) | (1 << crate::variable::verif_valgate::V_STRING));
    crate::verif_model::set_order(0);
    let (x, x2): (i64, i64) = (kani::any(), kani::any());
    let f: f64 = kani::any();
    let scrutinee = match kind {
        0 => Variable::Int(x),
        1 => Variable::Float(f),
        2 => Variable::String("a".into()),
        3 => Variable::from(crate::vv![Variable::Int(x)]),
        _ => Variable::Void,
    };
    let mut tree = the_match(scrutinee, x2);
    if fold { tree = folded(&tree); }
    let r = run(&tree);
    let expect = match kind {
        0 => if x == 7 || x == x2 { 10 } else { 20 },
        1 => 30,
        _ => 40,
    };
    assert!(is_int(&r, expect));
}
macro_rules! match_harness {
    ($name:ident, $kind:expr, $fold:expr) => {
        #[kani::proof]
        #[kani::unwind(5)]
        #[kani::stub(alloc::fmt::format, crate::verif_common::stub_format)]
        pub fn $name() { match_selects($kind, $fold); kani::cover!(true); }
    };
}
match_harness!(match_int, 0, false);
#[cfg(feature = "verif_experimental")]
match_harness!(match_int_folded, 0, true);
#[cfg(feature = "verif_experimental")]
match_harness!(match_float, 1, false);
#[cfg(feature = "verif_experimental")]
match_harness!(match_string, 2, false);
#[cfg(feature = "verif_experimental")]
match_harness!(match_array, 3, false);
#[cfg(feature = "verif_experimental")]
match_harness!(match_void_folded, 4, true);

// smaller matches (three / two arms): the four-arm harnesses above cost 200-600 s each, these are the
// ones the quick tier runs
/// arms  n: int => 20 ; f: int|float => 30 ; => 40   - the FIRST arm whose type the runtime type matches
fn match_types(kind: u8) {
    levels(1 << K_MATCH, V, 0, 0);
    crate::variable::verif_valgate::allow_vals(1 << crate::variable::verif_valgate::V_STRING);
    crate::verif_model::set_order(0);
    let x: i64 = kani::any();
    let f: f64 = kani::any();
    let scrutinee = match kind {
        0 => Variable::Int(x),
        1 => Variable::Float(f),
        _ => Variable::String("a".into()),
    };
    let arms: Vec<MatchArm> = crate::vv![
        MatchArm::Type { ident: "n".into(), var_type: Type::Int, instruction: iws(konst(20)) },
        MatchArm::Type { ident: "f".into(), var_type: Type::Int | Type::Float, instruction: iws(konst(30)) },
        MatchArm::Other(iws(konst(40)))
    ];
    let tree: Instruction = Match { expression: iws(Instruction::Variable(scrutinee)), arms: arms.into_boxed_slice() }.into();
    let r = run(&tree);
    let expect = match kind { 0 => 20, 1 => 30, _ => 40 };
    assert!(is_int(&r, expect));
}
/// arms  (7), (x2) => 10 ; n: int => 20   - a value arm is taken exactly when a candidate equals the scrutinee
fn match_value_then_type() {
    levels(1 << K_MATCH, V, 0, 0);
    crate::variable::verif_valgate::allow_vals(0);
    crate::verif_model::set_order(0);
    let (x, x2): (i64, i64) = (kani::any(), kani::any());
    let arms: Vec<MatchArm> = crate::vv![
        MatchArm::Value(Arc::from(crate::vv![iws(konst(7)), iws(konst(x2))]), iws(konst(10))),
        MatchArm::Type { ident: "n".into(), var_type: Type::Int, instruction: iws(konst(20)) }
    ];
    let tree: Instruction = Match { expression: iws(Instruction::Variable(Variable::Int(x))), arms: arms.into_boxed_slice() }.into();
    let r = run(&tree);
    assert!(is_int(&r, if x == 7 || x == x2 { 10 } else { 20 }));
}
macro_rules! small_match {
    ($name:ident, $body:expr) => {
        #[kani::proof]
        #[kani::unwind(5)]
        #[kani::stub(alloc::fmt::format, crate::verif_common::stub_format)]
        pub fn $name() { $body; kani::cover!(true); }
    };
}
/// arms  v: any => 30 ; => 40  with an int scrutinee: the runtime type only has to MATCH the arm's
/// type (be a subtype of it), not equal it.  (With a union as the arm's type - read back from the heap
/// MatchArm with an unresolved tag - CBMC did not finish in 1300 s.)
fn match_supertype_arm() {
    levels(1 << K_MATCH, V, 0, 0);
    crate::variable::verif_valgate::allow_vals(0);
    crate::verif_model::set_order(0);
    let x: i64 = kani::any();
    let arms: Vec<MatchArm> = crate::vv![
        MatchArm::Type { ident: "v".into(), var_type: Type::Any, instruction: iws(konst(30)) },
        MatchArm::Other(iws(konst(40)))
    ];
    let tree: Instruction = Match { expression: iws(Instruction::Variable(Variable::Int(x))), arms: arms.into_boxed_slice() }.into();
    assert!(is_int(&run(&tree), 30));
}
small_match!(match_type_arm_accepts_subtypes, match_supertype_arm());
small_match!(match_types_int, match_types(0));
#[cfg(feature = "verif_experimental")]
small_match!(match_types_float, match_types(1));
#[cfg(feature = "verif_experimental")]
small_match!(match_types_string, match_types(2));
small_match!(match_value_arm_then_type_arm, match_value_then_type());

/// a match accepted as exhaustive for a static type always has an arm for a value of that type:
/// arms  a: [int] => 1 ; s: string|float => 2   against scrutinee types from the universe
fn exhaustive(t: Ty) {
    levels(1 << K_MATCH, V, 0, 0);
    crate::variable::verif_valgate::allow_vals((1 << crate::variable::verif_valgate::V_ARRAY) | (1 << crate::variable::verif_valgate::V_STRING));
    crate::verif_model::set_order(0);
    let arms: Vec<MatchArm> = vec![
        MatchArm::Type { ident: "a".into(), var_type: real(T_ARR_INT), instruction: iws(konst(1)) },
        MatchArm::Type { ident: "s".into(), var_type: Type::String | Type::Float, instruction: iws(konst(2)) },
    ];
    let m = Match { expression: iws(konst(0)), arms: arms.into_boxed_slice() };
    if m.is_covering_type(&real(t)) {
        let mut k = 0;
        while k < n_vals(t) {
            let v = val(t, k);
            let arms: Vec<MatchArm> = vec![
                MatchArm::Type { ident: "a".into(), var_type: real(T_ARR_INT), instruction: iws(konst(1)) },
                MatchArm::Type { ident: "s".into(), var_type: Type::String | Type::Float, instruction: iws(konst(2)) },
            ];
            let is_arr = matches!(v, Variable::Array(_));
            let tree: Instruction = Match { expression: iws(Instruction::Variable(v)), arms: arms.into_boxed_slice() }.into();
            let r = run(&tree);
            assert!(is_int(&r, if is_arr { 1 } else { 2 }));
            k += 1;
        }
    }
}
macro_rules! exhaustive_harness {
    ($name:ident, $t:expr) => {
        #[kani::proof]
        #[kani::unwind(5)]
        #[kani::stub(alloc::fmt::format, crate::verif_common::stub_format)]
        pub fn $name() { exhaustive($t); kani::cover!(true); }
    };
}
#[cfg(feature = "verif_experimental")]
exhaustive_harness!(match_accepted_is_exhaustive_arr_int, T_ARR_INT);
#[cfg(feature = "verif_experimental")]
exhaustive_harness!(match_accepted_is_exhaustive_arr_never, T_ARR_NEVER);
#[cfg(feature = "verif_experimental")]
exhaustive_harness!(match_accepted_is_exhaustive_str, T_STR);
#[cfg(feature = "verif_experimental")]
exhaustive_harness!(match_accepted_is_exhaustive_float, T_FLOAT);
#[cfg(feature = "verif_experimental")]
exhaustive_harness!(match_accepted_is_exhaustive_int, T_INT);
#[cfg(feature = "verif_experimental")]
exhaustive_harness!(match_accepted_is_exhaustive_u_arrs, T_U_ARRS);
#[cfg(feature = "verif_experimental")]
exhaustive_harness!(match_accepted_is_exhaustive_u_int_arr, T_U_INT_ARR_INT);
#[cfg(feature = "verif_experimental")]
exhaustive_harness!(match_accepted_is_exhaustive_arr_u, T_ARR_U_INT_FLOAT);

// ---------------------------------------------------------------------------------------------
/// if x: T = e   runs the body exactly when the runtime type of e matches T
fn set_if_else(kind: u8, fold: bool) {
    levels((1 << K_SETIFELSE) | if fold { V } else { 0 }, V, 0, 0);
    crate::variable::verif_valgate::allow_vals((1 << crate::variable::verif_valgate::V_ARRAY) | (1 << crate::variable::verif_valgate::V_STRING));
    crate::verif_model::set_order(0);
    let x: i64 = kani::any();
    let e = match kind {
        0 => Variable::Int(x),
        1 => Variable::Float(kani::any()),
        2 => Variable::from(crate::vv![Variable::Int(x)]),
        3 => Variable::Array(Arc::new(crate::variable::Array::new_with_type(Type::Int | Type::Float, Arc::from(crate::vv![Variable::Int(x)])))),
        _ => Variable::from(Vec::<Variable>::new()),
    };
    // T = [int]
    let mut tree: Instruction = SetIfElse {
        ident: "v".into(),
        var_type: real(T_ARR_INT),
        expression: iws(Instruction::Variable(e)),
        if_match: iws(konst(1)),
        else_instruction: iws(konst(2)),
    }
    .into();
    if fold { tree = folded(&tree); }
    let r = run(&tree);
    // runtime type tags: [int] and [] match [int]; an array *stored* as [int|float] does not
    let expect = match kind { 2 | 4 => 1, _ => 2 };
    assert!(is_int(&r, expect));
}
macro_rules! if_set_harness {
    ($name:ident, $kind:expr, $fold:expr) => {
        #[kani::proof]
        #[kani::unwind(5)]
        #[kani::stub(alloc::fmt::format, crate::verif_common::stub_format)]
        pub fn $name() { set_if_else($kind, $fold); kani::cover!(true); }
    };
}
if_set_harness!(if_set_int, 0, false);
if_set_harness!(if_set_float, 1, false);
#[cfg(feature = "verif_experimental")]
if_set_harness!(if_set_arr_int, 2, false);
#[cfg(feature = "verif_experimental")]
if_set_harness!(if_set_arr_stored_as_union, 3, false);
#[cfg(feature = "verif_experimental")]
if_set_harness!(if_set_empty_folded, 4, true);
#[cfg(feature = "verif_experimental")]
if_set_harness!(if_set_arr_int_folded, 2, true);

// ---------------------------------------------------------------------------------------------
/// loop { cnt += 1; if cnt >= n { break } }  evaluates to () after exactly n iterations (n in 1..=3);
/// also after the folding pass (a body of type `!` must not lose its loop)
fn counted_loop(fold: bool, always_break: bool) {
    // loop > if/else | block > comparison | `+=` > operands; the folding pass may keep the shape or
    // simplify one level, so the folded variants declare the union of neighbouring levels
    if always_break { levels(LP, BL, BO | V, V); } else { levels(LP, IE, BO | V, BO | V); }
    let n: i64 = kani::any();
    kani::assume(n >= 1 && n <= 3);
    let cnt = new_cell(Type::Int, Variable::Int(0));
    let bump: Instruction = BinOperation { lhs: Instruction::Variable(Variable::Mut(cnt.clone())), rhs: konst(1), op: BinOperator::AssignAdd }.into();
    let body: Instruction = if always_break {
        // loop { cnt += 1; break }   -- body has static type `!`
        Block { instructions: Arc::from(crate::vv![iws(bump), iws(Instruction::Break)]) }.into()
    } else {
        let cond: Instruction = BinOperation { lhs: bump, rhs: konst(n), op: BinOperator::GreaterOrEqual }.into();
        IfElse { condition: iws(cond), if_true: iws(Instruction::Break), if_false: iws(Instruction::Continue) }.into()
    };
    let mut tree: Instruction = Loop(iws(body)).into();
    if fold { tree = folded(&tree); }
    let r = run(&tree);
    assert!(matches!(r, Ok(Variable::Void)));
    assert!(cell_int(&cnt) == Some(if always_break { 1 } else { n }));
}
#[cfg(feature = "verif_experimental")]
#[kani::proof]
#[kani::unwind(5)]
#[kani::stub(alloc::fmt::format, crate::verif_common::stub_format)]
pub fn loop_break_continue() { counted_loop(false, false); kani::cover!(true); }
#[cfg(feature = "verif_experimental")]
#[kani::proof]
#[kani::unwind(5)]
#[kani::stub(alloc::fmt::format, crate::verif_common::stub_format)]
pub fn loop_break_continue_folded() { counted_loop(true, false); kani::cover!(true); }
#[cfg(feature = "verif_experimental")]
#[kani::proof]
#[kani::unwind(5)]
#[kani::stub(alloc::fmt::format, crate::verif_common::stub_format)]
pub fn loop_body_of_type_never_folded() { counted_loop(true, true); kani::cover!(true); }
#[cfg(feature = "verif_experimental")]
#[kani::proof]
#[kani::unwind(5)]
#[kani::stub(alloc::fmt::format, crate::verif_common::stub_format)]
pub fn loop_body_of_type_never() { counted_loop(false, true); kani::cover!(true); }

/// break leaves only the innermost loop:  loop { loop { break } ; outer += 1 ; if outer >= 2 { break } }
#[cfg(feature = "verif_experimental")]
#[kani::proof]
#[kani::unwind(5)]
#[kani::stub(alloc::fmt::format, crate::verif_common::stub_format)]
pub fn break_affects_innermost_loop() {
    levels(LP, BL, LP | IE, BO | V);
    let outer = new_cell(Type::Int, Variable::Int(0));
    let inner_loop: Instruction = Loop(iws(Instruction::Break)).into();
    let bump: Instruction = BinOperation { lhs: Instruction::Variable(Variable::Mut(outer.clone())), rhs: konst(1), op: BinOperator::AssignAdd }.into();
    let cond: Instruction = BinOperation { lhs: bump, rhs: konst(2), op: BinOperator::GreaterOrEqual }.into();
    let exit: Instruction = IfElse { condition: iws(cond), if_true: iws(Instruction::Break), if_false: iws(Instruction::Variable(Variable::Void)) }.into();
    let body: Instruction = Block { instructions: Arc::from(crate::vv![iws(inner_loop), iws(exit)]) }.into();
    let tree: Instruction = Loop(iws(body)).into();
    let r = run(&tree);
    assert!(matches!(r, Ok(Variable::Void)));
    assert!(cell_int(&outer) == Some(2));
    let r2 = run(&folded(&tree));
    assert!(matches!(r2, Ok(Variable::Void)));
    assert!(cell_int(&outer) == Some(4));
    kani::cover!(true);
}

/// blocks evaluate to their last statement; an error inside a loop propagates out of it
#[kani::proof]
#[kani::unwind(5)]
#[kani::stub(alloc::fmt::format, crate::verif_common::stub_format)]
pub fn block_value_and_error_propagation() {
    levels(LP | BL | V, BO | V, UO | V, V);
    let (a, b): (i64, i64) = (kani::any(), kani::any());
    let blk: Instruction = Block { instructions: Arc::from(crate::vv![iws(konst(a)), iws(konst(b))]) }.into();
    assert!(is_int(&run(&blk), b));
    assert!(is_int(&run(&folded(&blk)), b));
    let empty: Instruction = Block { instructions: Arc::from(Vec::<InstructionWithStr>::new()) }.into();
    assert!(matches!(run(&empty), Ok(Variable::Void)));
    // loop { x / 0 } ends with the error, it is neither swallowed nor turned into a break
    let cell = new_cell(Type::Int, Variable::Int(a));
    let hidden: Instruction = UnaryOperation { instruction: Instruction::Variable(Variable::Mut(cell)), op: UnaryOperator::Indirection }.into();
    let div: Instruction = BinOperation { lhs: hidden, rhs: konst(0), op: BinOperator::Modulo }.into();
    let lp: Instruction = Loop(iws(div)).into();
    assert!(matches!(run(&lp), Err(ExecStop::Error(ExecError::ZeroModulo))));
    kani::cover!(true);
}

/// function bodies: `return` is caught by the function, falling off the end yields (), a loop
/// inside the function is left by return
#[kani::proof]
#[kani::unwind(5)]
#[kani::stub(alloc::fmt::format, crate::verif_common::stub_format)]
pub fn return_leaves_innermost_function() {
    levels(LP | V, UO, V, 0);
    let x: i64 = kani::any();
    let ret: Instruction = UnaryOperation { instruction: konst(x), op: UnaryOperator::Return }.into();
    // body: loop { return x }  ; 99
    let lp: Instruction = Loop(iws(ret)).into();
    let f = Function { ident: None, params: Params(Arc::from(Vec::new())), body: Body::Lang(Arc::from(crate::vv![iws(lp), iws(konst(99))])), return_type: Type::Int };
    let mut interp = Interpreter::without_stdlib();
    assert!(matches!(f.exec(&mut interp), Ok(Variable::Int(v)) if v == x));
    // body without return: value is ()
    let g = Function { ident: None, params: Params(Arc::from(Vec::new())), body: Body::Lang(Arc::from(crate::vv![iws(konst(x))])), return_type: Type::Void };
    assert!(matches!(g.exec(&mut interp), Ok(Variable::Void)));
    kani::cover!(true);
}
