//@ inject: src/instruction.rs
//@ modname: verif_c07
//@ property: C07
//@ tier: quick

//! C07 - evaluation order: left to right, exactly once, short-circuit; only the chosen branch.
//!
//! Effectful operand E(d) = `acc += d` (a BinOperation on a cell that is a constant of the tree): it
//! yields the running sum, so the *values* seen by the enclosing construct identify the order in
//! which the operands ran, and the final cell content identifies how often each ran (the increments
//! d1, d2, d3 are independent symbolic ints).  Every construct is checked as built and after the
//! constant-folding pass (`recreate`).  Trees are depth <= 2 with concrete shapes (see DESIGN §0.2).
use super::*;
use crate::instruction::array_repeat::ArrayRepeat;
use crate::instruction::control_flow::{IfElse, Match};
use crate::instruction::local_variable::LocalVariables;
use crate::instruction::r#struct::Struct;
use crate::instruction::slicing::Slicing;
use crate::verif_common::*;
use crate::verif_model::Arc;
use crate::BinOperator;

fn iws(i: Instruction) -> InstructionWithStr {
    InstructionWithStr { instruction: i, str: "e".into() }
}
/// E(d): `acc += d`
fn eff(acc: &Arc<crate::variable::Mut>, d: i64) -> Instruction {
    BinOperation { lhs: Instruction::Variable(Variable::Mut(acc.clone())), rhs: Instruction::Variable(Variable::Int(d)), op: BinOperator::AssignAdd }.into()
}
/// boolean effect: `flag ^= true` (yields the new flag)
fn toggle(flag: &Arc<crate::variable::Mut>) -> Instruction {
    BinOperation { lhs: Instruction::Variable(Variable::Mut(flag.clone())), rhs: Instruction::Variable(Variable::Bool(true)), op: BinOperator::AssignXor }.into()
}
/// Declared shape, level by level (lib/patch.py `verif_gate`): CBMC cannot resolve the tag of an
/// instruction read back from the heap, so every scenario declares which instruction kinds and
/// binary operators occur at nesting depth 0 and 1 of its own tree (as built *and* as folded); depth 2
/// holds constants only.  A real execution that leaves the declared shape makes the harness FAIL.
fn declare_levels(l0_kinds: u32, l0_ops: u64, l1_kinds: u32, l1_ops: u64) {
    use crate::instruction::verif_gate::*;
    allow_unops(0);
    allow_binops(u64::MAX);
    allow_mask(u32::MAX);
    // operands of `+=` are ints: no compound value is ever concatenated or typed
    crate::variable::verif_valgate::allow_vals(0);
    allow_at(0, l0_kinds, l0_ops);
    allow_at(1, l1_kinds, l1_ops);
    allow_at(2, KV, 0);
    allow_at(3, 0, 0);
}
use crate::instruction::verif_gate::b as opbit;
const KV: u32 = 1 << crate::instruction::verif_gate::K_VARIABLE;
const KB: u32 = 1 << crate::instruction::verif_gate::K_BINOPERATION;
fn run(i: &Instruction) -> Result<Variable, ExecStop> {
    let mut interp = Interpreter::without_stdlib();
    i.exec(&mut interp)
}
fn folded(i: &Instruction) -> Instruction {
    let interp = Interpreter::without_stdlib();
    let mut lv = LocalVariables::new(&interp);
    let r = match i.recreate(&mut lv) {
        Ok(t) => t,
        Err(_) => panic!("the folding pass rejected a tree without constant failures"),
    };
    std::mem::forget(lv);
    r
}
fn int_of(v: &Variable) -> i64 {
    match v { Variable::Int(x) => *x, _ => panic!("expected an int") }
}
fn s(a: i64, b: i64) -> i64 { a.wrapping_add(b) }

/// binary operator: lhs then rhs, each once.  `-` makes the order visible in the result.
fn binop_order(fold: bool) {
    declare_levels(KB, opbit(BinOperator::Subtract), KB, opbit(BinOperator::AssignAdd));
    let (a0, d1, d2): (i64, i64, i64) = (kani::any(), kani::any(), kani::any());
    let acc = new_cell(Type::Int, Variable::Int(a0));
    let mut tree: Instruction = BinOperation { lhs: eff(&acc, d1), rhs: eff(&acc, d2), op: BinOperator::Subtract }.into();
    if fold { tree = folded(&tree); }
    let r = run(&tree);
    // left to right: lhs saw a0+d1, rhs saw a0+d1+d2
    assert!(matches!(r, Ok(Variable::Int(x)) if x == s(a0, d1).wrapping_sub(s(s(a0, d1), d2))));
    assert!(cell_int(&acc) == Some(s(s(a0, d1), d2)));
}
#[kani::proof]
#[kani::unwind(3)]
#[kani::stub(alloc::fmt::format, crate::verif_common::stub_format)]
pub fn order_binop() { binop_order(false); kani::cover!(true); }
#[kani::proof]
#[kani::unwind(3)]
#[kani::stub(alloc::fmt::format, crate::verif_common::stub_format)]
pub fn order_binop_folded() { binop_order(true); kani::cover!(true); }

/// array, tuple and struct literals: elements left to right, each once (two effectful elements: the
/// second element's value shows that the first one ran before it, the cell shows each ran once)
fn seq_order(kind: u8, fold: bool) {
    declare_levels(match kind { 0 => 1 << crate::instruction::verif_gate::K_ARRAY, 1 => 1 << crate::instruction::verif_gate::K_TUPLE, _ => 1 << crate::instruction::verif_gate::K_STRUCT }, 0, KB, opbit(BinOperator::AssignAdd));
    crate::variable::verif_valgate::stub_element_type(true); // the stored element type is not the subject here
    // struct literals: every map of the run iterates in REVERSED insertion order (a concrete policy: the symbolic one
    // ran out of memory) - an implementation that evaluated the fields in map order would run them right to left
    if kind == 2 { crate::verif_model::set_order(1); }
    let (a0, d1, d2): (i64, i64, i64) = (kani::any(), kani::any(), kani::any());
    let acc = new_cell(Type::Int, Variable::Int(a0));
    let elems: Arc<[InstructionWithStr]> = Arc::from(crate::vv![iws(eff(&acc, d1)), iws(eff(&acc, d2))]);
    let mut tree: Instruction = match kind {
        0 => crate::instruction::array::Array { instructions: elems, element_type: Type::Int }.into(),
        1 => crate::instruction::tuple::Tuple { elements: elems }.into(),
        // (built only with the experimental harnesses: a tree that reshapes the `Struct` instruction must not stop the
        //  other harnesses of this file from compiling)
        #[cfg(feature = "verif_experimental")]
        _ => Struct { idents: Arc::from(crate::vv![Arc::<str>::from("x"), Arc::<str>::from("y")]), values: elems }.into(),
        #[cfg(not(feature = "verif_experimental"))]
        _ => panic!("struct literals are not built in this tier"),
    };
    if fold { tree = folded(&tree); }
    let r = run(&tree);
    let (e1, e2) = (s(a0, d1), s(s(a0, d1), d2));
    match r {
        Ok(Variable::Array(a)) => assert!(kind == 0 && a.len() == 2 && int_of(&a[0]) == e1 && int_of(&a[1]) == e2),
        Ok(Variable::Tuple(t)) => assert!(kind == 1 && t.len() == 2 && int_of(&t[0]) == e1 && int_of(&t[1]) == e2),
        Ok(Variable::Struct(m)) => assert!(kind == 2 && int_of(m.get("x").unwrap()) == e1 && int_of(m.get("y").unwrap()) == e2),
        _ => panic!("literal did not evaluate"),
    }
    assert!(cell_int(&acc) == Some(e2));
}
macro_rules! seq_harness {
    ($(#[$m:meta])* $name:ident, $kind:expr, $fold:expr) => {
        $(#[$m])*
        // round two: did not finish within 600 s / 14 GB (`Interpreter::exec` = iterator map + collect over a heap
        // slice); with the sequence model of DESIGN 0.3 the array and tuple literals finish (thorough tier)
        #[kani::proof]
        #[kani::unwind(4)]
        #[kani::stub(alloc::fmt::format, crate::verif_common::stub_format)]
        pub fn $name() { seq_order($kind, $fold); kani::cover!(true); }
    };
}
seq_harness!(order_array, 0, false);
seq_harness!(#[cfg(feature = "verif_thorough")] order_array_folded, 0, true);
seq_harness!(order_tuple, 1, false);
seq_harness!(#[cfg(feature = "verif_thorough")] order_tuple_folded, 1, true);
seq_harness!(#[cfg(feature = "verif_experimental")] order_struct, 2, false);
seq_harness!(#[cfg(feature = "verif_experimental")] order_struct_folded, 2, true);

/// `[value; len]`: value then length, each once (length = acc after two increments, kept small)
fn repeat_order(fold: bool) {
    declare_levels(1 << crate::instruction::verif_gate::K_ARRAYREPEAT, 0, KB, opbit(BinOperator::AssignAdd));
    let (d1, d2): (i64, i64) = (kani::any(), kani::any());
    kani::assume(d1 >= 0 && d1 <= 1 && d2 >= 0 && d2 <= 1);
    let acc = new_cell(Type::Int, Variable::Int(0));
    let mut tree: Instruction = ArrayRepeat { value: iws(eff(&acc, d1)), len: iws(eff(&acc, d2)) }.into();
    if fold { tree = folded(&tree); }
    let r = run(&tree);
    match r {
        Ok(Variable::Array(a)) => {
            assert!(a.len() as i64 == d1 + d2);
            if a.len() > 0 { assert!(int_of(&a[0]) == d1); }
        }
        _ => panic!("array repeat did not evaluate"),
    }
    assert!(cell_int(&acc) == Some(d1 + d2));
}
#[kani::proof]
#[kani::unwind(5)]
#[kani::stub(alloc::fmt::format, crate::verif_common::stub_format)]
pub fn order_array_repeat() { repeat_order(false); kani::cover!(true); }
#[kani::proof]
#[kani::unwind(5)]
#[kani::stub(alloc::fmt::format, crate::verif_common::stub_format)]
pub fn order_array_repeat_folded() { repeat_order(true); kani::cover!(true); }

/// slice: sequence, then start, stop, step, each once
fn slice_order(fold: bool) {
    declare_levels(1 << crate::instruction::verif_gate::K_SLICING, 0, KB | KV, opbit(BinOperator::AssignAdd));
    let acc = new_cell(Type::Int, Variable::Int(0));
    // the sequence operand has an effect too: it sets acc to 10 (`acc = 10` yields 10 - not a sequence),
    // so the sequence is a constant and the three bounds carry the order: start = 1, stop = 1+2, step = 1+2-2
    let seq = Variable::from(crate::vv![Variable::Int(5), Variable::Int(6), Variable::Int(7), Variable::Int(8)]);
    let mut tree: Instruction = Slicing {
        lhs: iws(Instruction::Variable(seq)),
        start: Some(iws(eff(&acc, 1))),
        stop: Some(iws(eff(&acc, 2))),
        step: Some(iws(eff(&acc, -2))),
    }
    .into();
    if fold { tree = folded(&tree); }
    match run(&tree) {
        // [5,6,7,8][1:3:1] == [6,7]
        Ok(Variable::Array(a)) => assert!(a.len() == 2 && int_of(&a[0]) == 6 && int_of(&a[1]) == 7),
        _ => panic!("slice did not evaluate"),
    }
    assert!(cell_int(&acc) == Some(1));
}
#[cfg(feature = "verif_experimental")] // did not finish within 600 s (no tier enables it)
#[kani::proof]
#[kani::unwind(6)]
#[kani::stub(alloc::fmt::format, crate::verif_common::stub_format)]
pub fn order_slice_bounds() { slice_order(false); kani::cover!(true); }
#[cfg(feature = "verif_experimental")] // did not finish within 600 s (no tier enables it)
#[kani::proof]
#[kani::unwind(6)]
#[kani::stub(alloc::fmt::format, crate::verif_common::stub_format)]
pub fn order_slice_bounds_folded() { slice_order(true); kani::cover!(true); }

/// `&&` / `||`: the right operand runs iff the left one does not decide; left exactly once
fn short_circuit(or: bool, lhs_effect: bool, fold: bool) {
    let sc = opbit(if or { BinOperator::Or } else { BinOperator::And });
    // folding may replace the whole operation by its right operand or by a constant
    if fold { declare_levels(KB | KV, sc | opbit(BinOperator::AssignXor), KB | KV, opbit(BinOperator::AssignXor)); } else { declare_levels(KB, sc, KB | KV, opbit(BinOperator::AssignXor)); }
    let p: bool = kani::any();
    let f0: bool = kani::any();
    let lflag = new_cell(Type::Bool, Variable::Bool(!p)); // toggled once it becomes p
    let rflag = new_cell(Type::Bool, Variable::Bool(f0));
    let lhs = if lhs_effect { toggle(&lflag) } else { Instruction::Variable(Variable::Bool(p)) };
    let mut tree: Instruction = BinOperation { lhs, rhs: toggle(&rflag), op: if or { BinOperator::Or } else { BinOperator::And } }.into();
    if fold { tree = folded(&tree); }
    let r = run(&tree);
    let rhs_runs = if or { !p } else { p };
    let expect = if rhs_runs { !f0 } else { p };
    assert!(matches!(r, Ok(Variable::Bool(x)) if x == expect));
    assert!(as_bool(&rflag.variable.read().unwrap()) == Some(if rhs_runs { !f0 } else { f0 }));
    if lhs_effect {
        assert!(as_bool(&lflag.variable.read().unwrap()) == Some(p));
    }
}
macro_rules! sc_harness {
    ($name:ident, $or:expr, $le:expr, $fold:expr) => {
        #[kani::proof]
        #[kani::unwind(3)]
        #[kani::stub(alloc::fmt::format, crate::verif_common::stub_format)]
        pub fn $name() { short_circuit($or, $le, $fold); kani::cover!(true); }
    };
}
sc_harness!(short_circuit_and, false, true, false);
sc_harness!(short_circuit_and_folded, false, true, true);
sc_harness!(short_circuit_and_const_lhs_folded, false, false, true);
sc_harness!(short_circuit_or, true, true, false);
sc_harness!(short_circuit_or_folded, true, true, true);
sc_harness!(short_circuit_or_const_lhs_folded, true, false, true);

/// `lhs && <constant>` / `lhs || <constant>`: the left operand's effect survives folding
fn const_rhs(or: bool, c: bool) {
    let sc = opbit(if or { BinOperator::Or } else { BinOperator::And });
    declare_levels(KB | KV, sc | opbit(BinOperator::AssignXor), KB | KV, opbit(BinOperator::AssignXor));
    let p: bool = kani::any();
    let lflag = new_cell(Type::Bool, Variable::Bool(!p));
    let tree: Instruction = BinOperation { lhs: toggle(&lflag), rhs: Instruction::Variable(Variable::Bool(c)), op: if or { BinOperator::Or } else { BinOperator::And } }.into();
    let tree = folded(&tree);
    let r = run(&tree);
    let expect = if or { p || c } else { p && c };
    assert!(matches!(r, Ok(Variable::Bool(x)) if x == expect));
    assert!(as_bool(&lflag.variable.read().unwrap()) == Some(p));
}
#[kani::proof]
#[kani::unwind(3)]
#[kani::stub(alloc::fmt::format, crate::verif_common::stub_format)]
pub fn short_circuit_const_rhs_folded() {
    const_rhs(false, false);
    const_rhs(false, true);
    const_rhs(true, false);
    const_rhs(true, true);
    kani::cover!(true);
}

/// the two cases in which a fold to the absorbing constant is tempting, one harness each (quick tier)
#[kani::proof]
#[kani::unwind(3)]
#[kani::stub(alloc::fmt::format, crate::verif_common::stub_format)]
pub fn short_circuit_and_const_false_rhs_folded() { const_rhs(false, false); kani::cover!(true); }
#[kani::proof]
#[kani::unwind(3)]
#[kani::stub(alloc::fmt::format, crate::verif_common::stub_format)]
pub fn short_circuit_or_const_true_rhs_folded() { const_rhs(true, true); kani::cover!(true); }

/// if / else: condition once, then only the chosen branch
fn if_else(fold: bool, const_cond: bool) {
    let kif = 1 << crate::instruction::verif_gate::K_IFELSE;
    let ops = opbit(BinOperator::AssignAdd) | opbit(BinOperator::AssignXor);
    // a constant condition lets the folding pass keep only the chosen branch
    if fold { declare_levels(kif | KB, ops, KB | KV, ops); } else { declare_levels(kif, 0, KB | KV, ops); }
    let (a0, d1, d2): (i64, i64, i64) = (kani::any(), kani::any(), kani::any());
    let c: bool = kani::any();
    let acc = new_cell(Type::Int, Variable::Int(a0));
    let cflag = new_cell(Type::Bool, Variable::Bool(!c));
    let cond = if const_cond { Instruction::Variable(Variable::Bool(true)) } else { toggle(&cflag) };
    let mut tree: Instruction = IfElse { condition: iws(cond), if_true: iws(eff(&acc, d1)), if_false: iws(eff(&acc, d2)) }.into();
    if fold { tree = folded(&tree); }
    let r = run(&tree);
    let taken = if const_cond || c { d1 } else { d2 };
    assert!(matches!(r, Ok(Variable::Int(x)) if x == s(a0, taken)));
    assert!(cell_int(&acc) == Some(s(a0, taken)));
    if !const_cond { assert!(as_bool(&cflag.variable.read().unwrap()) == Some(c)); }
}
macro_rules! if_harness {
    ($name:ident, $fold:expr, $cc:expr) => {
        #[kani::proof]
        #[kani::unwind(3)]
        #[kani::stub(alloc::fmt::format, crate::verif_common::stub_format)]
        pub fn $name() { if_else($fold, $cc); kani::cover!(true); }
    };
}
if_harness!(branch_if_else, false, false);
// did not finish within 600 s / 14 GB (kept for reference, no tier enables it)
#[cfg(feature = "verif_experimental")]
if_harness!(branch_if_else_folded, true, false);
// round two: 525 s; round three: out of memory (14 GB) - unreliable, no tier enables it
#[cfg(feature = "verif_experimental")]
if_harness!(branch_if_const_cond_folded, true, true);

/// assignment: target then value; the update reads the cell after the value was evaluated
fn assign_order(fold: bool) {
    declare_levels(KB, opbit(BinOperator::AssignSubtract), KB | KV, opbit(BinOperator::AssignAdd));
    let (a0, d1, d2): (i64, i64, i64) = (kani::any(), kani::any(), kani::any());
    let acc = new_cell(Type::Int, Variable::Int(a0));
    // acc -= (acc += d1)   : value evaluated first bumps acc to a0+d1, then acc = (a0+d1) - (a0+d1) = 0
    let mut tree: Instruction = BinOperation { lhs: Instruction::Variable(Variable::Mut(acc.clone())), rhs: eff(&acc, d1), op: BinOperator::AssignSubtract }.into();
    if fold { tree = folded(&tree); }
    let r = run(&tree);
    let _ = d2;
    assert!(matches!(r, Ok(Variable::Int(0))));
    assert!(cell_int(&acc) == Some(0));
}
#[kani::proof]
#[kani::unwind(3)]
#[kani::stub(alloc::fmt::format, crate::verif_common::stub_format)]
pub fn order_compound_assign_reads_after_value() { assign_order(false); assign_order(true); kani::cover!(true); }
