//@ inject: src/instruction/function/call.rs
//@ modname: verif_c17
//@ property: C17
//@ tier: quick

//! C17 (the clauses that do not need program text): calling a function value through the host API
//! (`Function::create_call(args)` -> `Code::exec`) accepts exactly the argument lists the
//! in-language call check (`check_args_with_params`) accepts - arity and every argument's type - and
//! returns what the direct call returns; executing the same `Code` again yields an equal result with
//! fresh mutable state; `exec` runs in a private interpreter, `exec_unscoped` declares into the
//! caller's.  The REPL-versus-batch clause relates two `Code::parse` runs and is outside.
use super::*;
use crate::function::Body;
use crate::instruction::{Exec, ExecStop};
use crate::variable::Type;
use crate::verif_common::*;
use crate::verif_model::Arc;
use crate::{Code, Interpreter};

fn iws(i: Instruction) -> InstructionWithStr {
    InstructionWithStr { instruction: i, str: "e".into() }
}
pub fn stub_join<'a, T, I>(_items: I, _separator: &str) -> String
where
    T: std::fmt::Display + 'a,
    I: IntoIterator<Item = &'a T>,
{
    String::new()
}
/// f := (a: int, b: int|float) -> int { return a }
fn the_function() -> Arc<Function> {
    let ret: Instruction = UnaryOperation { instruction: local("a", Type::Int), op: UnaryOperator::Return }.into();
    Arc::new(Function {
        ident: None,
        params: Params(Arc::from(crate::vv![
            Param { name: "a".into(), var_type: Type::Int },
            Param { name: "b".into(), var_type: Type::Int | Type::Float }
        ])),
        body: Body::Lang(Arc::from(crate::vv![iws(ret)])),
        return_type: Type::Int,
    })
}
fn declare() {
    use crate::instruction::verif_gate::*;
    allow_mask((1 << K_VARIABLE) | (1 << K_SET) | (1 << K_UNARYOPERATION) | (1 << K_BLOCK));
    allow_binops(0);
    allow_unops(u(UnaryOperator::Return) | u(UnaryOperator::FunctionCall));
    crate::variable::verif_valgate::allow_vals(1 << crate::variable::verif_valgate::V_FUNCTION);
}
/// argument k of the enumerated candidates (kinds concrete, payload of the accepted ones symbolic)
fn candidate(k: u8, x: i64) -> Variable {
    match k {
        0 => Variable::Int(x),
        1 => Variable::Float(1.5),
        2 => Variable::Bool(true),
        _ => Variable::Void,
    }
}
/// one argument vector: host route and in-language check agree; when accepted, the host call returns
/// the first argument (what the direct call returns)
fn host_vs_language(n: usize, k0: u8, k1: u8) {
    declare();
    crate::verif_model::set_order(0);
    let x: i64 = kani::any();
    let f = the_function();
    let mut args = crate::vv![];
    if n >= 1 { args.push(candidate(k0, x)); }
    if n >= 2 { args.push(candidate(k1, 7)); }
    if n >= 3 { args.push(Variable::Int(0)); }
    let mut as_instructions = crate::vv![];
    let mut i = 0;
    while i < args.len() {
        as_instructions.push(iws(Instruction::Variable(args[i].clone())));
        i += 1;
    }
    let ident: Arc<str> = "f".into();
    // (results holding an `Error` are forgotten, not dropped: the drop glue of the crate's Error enum - pest and
    //  io errors, boxed trait objects - is explored for every variant when its tag is not resolved)
    let checked = check_args_with_params(&ident, &f.params, &as_instructions);
    let in_language = checked.is_ok();
    std::mem::forget(checked);
    let expected = n == 2 && k0 == 0 && k1 <= 1;
    assert!(in_language == expected);
    match f.clone().create_call(args) {
        Ok(code) => {
            // (running the accepted call is a separate, much more expensive harness: host_call_returns_*)
            std::mem::forget(code);
            assert!(expected);
        }
        Err(e) => {
            std::mem::forget(e);
            assert!(!expected);
        }
    }
}
/// an accepted host call returns what the in-language call returns (here: its first argument)
#[cfg(feature = "verif_experimental")]
#[kani::proof]
#[kani::unwind(6)]
#[kani::stub(alloc::fmt::format, crate::verif_common::stub_format)]
#[kani::stub(crate::join, stub_join)]
pub fn host_call_returns_what_the_call_returns() {
    declare();
    crate::verif_model::set_order(0);
    let x: i64 = kani::any();
    let f = the_function();
    let args = crate::vv![Variable::Int(x), Variable::Int(7)];
    match f.clone().create_call(args) {
        Ok(code) => {
            let r = code.exec();
            assert!(matches!(&r, Ok(Variable::Int(v)) if *v == x));
        }
        Err(e) => {
            std::mem::forget(e);
            panic!("a well-typed host call was rejected");
        }
    }
    kani::cover!(true);
}
macro_rules! host_harness {
    ($name:ident, $n:expr, $k0:expr, $k1:expr) => {
        #[kani::proof]
        #[kani::unwind(6)]
        #[kani::stub(alloc::fmt::format, crate::verif_common::stub_format)]
        #[kani::stub(crate::join, stub_join)]
        pub fn $name() { host_vs_language($n, $k0, $k1); kani::cover!(true); }
    };
}
host_harness!(host_call_no_args, 0, 0, 0);
host_harness!(host_call_one_arg, 1, 0, 0);
host_harness!(host_call_three_args, 3, 0, 0);
#[cfg(feature = "verif_experimental")] // accepted vectors: create_from_variables reads parameter types back from the heap Function, > 800 s
host_harness!(host_call_int_int, 2, 0, 0);
#[cfg(feature = "verif_experimental")] // accepted vectors: create_from_variables reads parameter types back from the heap Function, > 800 s
host_harness!(host_call_int_float, 2, 0, 1);
host_harness!(host_call_int_bool, 2, 0, 2);
host_harness!(host_call_float_int, 2, 1, 0);
host_harness!(host_call_void_int, 2, 3, 0);

// ---- the environment a host call runs in -------------------------------------------------------
/// `create_from_variables` turns a host call into a block `p1 := a1; ..; <name> := f; <call f>`.
/// Executing the binding prefix (everything but the final call) in a fresh interpreter must leave EVERY
/// parameter name bound to ITS argument - that is the environment `Function::exec_with_args` gives the
/// body in an in-language call (parameters shadow the function's own name, C06).  Running the body itself
/// is not repeated here (one function execution costs > 100 s; see host_call_returns_*).
/// Arguments are concrete ints: `InstructionWithStr::from(Variable)` renders its argument with Display.
fn bound_after_prefix(f: Arc<Function>, args: Vec<Variable>, name: &'static str) -> Option<Variable> {
    let ident = f.ident.clone().unwrap_or_else(|| Arc::from("function")); // what Function::create_call passes
    let instructions = match create_from_variables(ident, f, args) {
        Ok(i) => i,
        Err(e) => {
            std::mem::forget(e);
            panic!("a well-typed host call was rejected");
        }
    };
    let mut interp = Interpreter::without_stdlib();
    let n = instructions.len();
    let mut i = 0;
    while i + 1 < n {
        match instructions[i].exec(&mut interp) {
            Ok(_) => (),
            Err(_) => panic!("binding an argument failed"),
        }
        i += 1;
    }
    assert!(matches!(&instructions[n - 1].instruction, Instruction::UnaryOperation(u) if matches!(u.op, UnaryOperator::FunctionCall)));
    interp.get_variable(name).cloned()
}
fn fun(ident: Option<&'static str>, p1: &'static str) -> Arc<Function> {
    let ret: Instruction = UnaryOperation { instruction: local(p1, Type::Int), op: UnaryOperator::Return }.into();
    Arc::new(Function {
        ident: ident.map(Arc::from),
        params: Params(Arc::from(crate::vv![Param { name: p1.into(), var_type: Type::Int }])),
        body: Body::Lang(Arc::from(crate::vv![iws(ret)])),
        return_type: Type::Int,
    })
}
macro_rules! binding_harness {
    ($name:ident, $ident:expr, $param:expr) => {
        #[kani::proof]
        #[kani::unwind(8)]
        #[kani::stub(alloc::fmt::format, crate::verif_common::stub_format)]
        #[kani::stub(crate::join, stub_join)]
        pub fn $name() {
            declare();
            crate::verif_model::set_order(0);
            let got = bound_after_prefix(fun($ident, $param), crate::vv![Variable::Int(5)], $param);
            assert!(matches!(got, Some(Variable::Int(5))));
            kani::cover!(true);
        }
    };
}
#[cfg(feature = "verif_experimental")] // > 20 min
binding_harness!(host_call_binds_parameter_ordinary, Some("f"), "a");
#[cfg(feature = "verif_experimental")] // > 20 min
binding_harness!(host_call_binds_parameter_named_like_the_function, Some("f"), "f");
#[cfg(feature = "verif_experimental")] // > 20 min
binding_harness!(host_call_binds_parameter_named_function_of_anonymous, None, "function");
#[cfg(feature = "verif_experimental")] // > 20 min
binding_harness!(host_call_binds_parameter_of_anonymous, None, "a");

/// a parameter named like the function itself: the in-language call binds the function's own name
/// first and the parameters afterwards (the parameter wins); the host route must agree
#[cfg(feature = "verif_experimental")] // 2700 s timeout: three statements + a call
#[kani::proof]
#[kani::unwind(6)]
#[kani::stub(alloc::fmt::format, crate::verif_common::stub_format)]
#[kani::stub(crate::join, stub_join)]
pub fn host_call_parameter_named_like_the_function() {
    declare();
    crate::verif_model::set_order(0);
    let x: i64 = kani::any();
    let ret: Instruction = UnaryOperation { instruction: local("f", Type::Int), op: UnaryOperator::Return }.into();
    let f = Arc::new(Function {
        ident: Some("f".into()),
        params: Params(Arc::from(crate::vv![Param { name: "f".into(), var_type: Type::Int }])),
        body: Body::Lang(Arc::from(crate::vv![iws(ret)])),
        return_type: Type::Int,
    });
    let args = crate::vv![Variable::Int(x)];
    // (that the direct call `f.exec_with_args` returns x is decided by C06 parameter_shadows_the_function_name)
    match f.clone().create_call(args) {
        Ok(code) => {
            let r = code.exec();
            assert!(matches!(&r, Ok(Variable::Int(v)) if *v == x));
        }
        Err(e) => {
            std::mem::forget(e);
            panic!("a well-typed host call was rejected");
        }
    }
    kani::cover!(true);
}

/// executing the same Code again yields an equal result with fresh mutable state:
///   c := mut a ; c += d        (run twice: a+d both times, never a+2d)
#[cfg(feature = "verif_experimental")]
#[kani::proof]
#[kani::unwind(6)]
#[kani::stub(alloc::fmt::format, crate::verif_common::stub_format)]
pub fn exec_is_repeatable_with_fresh_cells() {
    {
        use crate::instruction::verif_gate::*;
        allow_mask((1 << K_VARIABLE) | (1 << K_SET) | (1 << K_MUT) | (1 << K_BINOPERATION));
        allow_binops(b(crate::BinOperator::AssignAdd));
        allow_unops(0);
        crate::variable::verif_valgate::allow_vals(1 << crate::variable::verif_valgate::V_MUT);
    }
    let (a, d): (i64, i64) = (kani::any(), kani::any());
    let new_cell_ins: Instruction = crate::instruction::r#mut::Mut { var_type: Type::Int, instruction: iws(Instruction::Variable(Variable::Int(a))) }.into();
    let set: Instruction = Set { ident: "c".into(), instruction: iws(new_cell_ins) }.into();
    let bump: Instruction = BinOperation { lhs: local("c", Type::Mut(Arc::new(Type::Int))), rhs: Instruction::Variable(Variable::Int(d)), op: crate::BinOperator::AssignAdd }.into();
    let code = Code { instructions: Arc::from(crate::vv![iws(set), iws(bump)]) };
    let r1 = code.exec();
    let r2 = code.exec();
    assert!(matches!(r1, Ok(Variable::Int(v)) if v == a.wrapping_add(d)));
    assert!(matches!(r2, Ok(Variable::Int(v)) if v == a.wrapping_add(d)));
    // exec_unscoped declares into the caller's interpreter, exec does not touch it
    let mut interp = Interpreter::without_stdlib();
    interp.insert("keep".into(), Variable::Int(a));
    let r3 = code.exec_unscoped(&mut interp);
    assert!(matches!(r3, Ok(Variable::Int(v)) if v == a.wrapping_add(d)));
    assert!(matches!(interp.get_variable("c"), Some(Variable::Mut(_))));
    assert!(matches!(interp.get_variable("keep"), Some(Variable::Int(v)) if *v == a));
    kani::cover!(true);
}
