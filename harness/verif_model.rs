//! Kani-only models of std::collections::{HashSet, HashMap}: vector-backed, `==`-based,
//! with an arbitrary-but-fixed iteration order per instance (models hash order).
use std::borrow::Borrow;

// ---------------------------------------------------------------------------------------------
// Iteration-order policy.  std's HashSet/HashMap give every instance fresh random keys, so any
// iteration order of any instance is possible.  Here the order of an instance is a permutation
// selected by its `seed` (rotation x reversal: all orders for <= 3 elements), drawn when the
// instance is created and re-drawn on every mutation:
//   policy 255 (default)  seed = kani::any()  - the order is a solver variable, independent per instance
//   policy p < 16         seed = p            - one concrete order for every instance
//   policy 16 + 6a + b    seeds alternate a, b, a, b ... over successive instances (independent
//                         orders of two structurally equal unions), a, b in 0..6
// Harnesses whose unions have compound members enumerate concrete policies (a merged symbolic
// order would make CBMC read payloads of one member through the tag of another).
static mut ORDER_POLICY: u8 = 255;
static mut SERIAL: u8 = 0;
pub fn set_order(p: u8) { unsafe { ORDER_POLICY = p; SERIAL = 0; } }
fn nondet_seed() -> u8 {
    let p = unsafe { ORDER_POLICY };
    if p == 255 {
        kani::any()
    } else if p < 16 {
        p
    } else {
        let q = p - 16;
        let (a, b) = (q / 6, q % 6);
        let n = unsafe { SERIAL };
        unsafe { SERIAL = n.wrapping_add(1); }
        if n % 2 == 0 { a } else { b }
    }
}

#[derive(Debug)]
pub struct HashSet<T> { items: Vec<T>, seed: u8 }
// a clone keeps spare capacity: `make_mut` + `insert` would otherwise go through `realloc`, whose
// byte-wise copy makes CBMC lose the tags of the copied elements
fn clone_with_room<T: Clone>(v: &Vec<T>) -> Vec<T> {
    let mut out = Vec::with_capacity(v.len() + 4);
    let mut i = 0;
    while i < v.len() {
        out.push(v[i].clone());
        i += 1;
    }
    out
}
impl<T: Clone> Clone for HashSet<T> {
    fn clone(&self) -> Self { Self { items: clone_with_room(&self.items), seed: self.seed } }
}

fn perm_index(seed: u8, n: usize, i: usize) -> usize {
    // rotation by (seed>>1)%n, optionally reversed: all orders for n<=3
    let rot = ((seed >> 1) as usize) % n;
    let j = (i + rot) % n;
    if seed & 1 == 1 { n - 1 - j } else { j }
}

pub struct Iter<'a, T> { items: &'a [T], seed: u8, pos: usize }
impl<'a, T> Iterator for Iter<'a, T> {
    type Item = &'a T;
    fn next(&mut self) -> Option<&'a T> {
        let n = self.items.len();
        if self.pos >= n { return None; }
        let k = perm_index(self.seed, n, self.pos);
        self.pos += 1;
        Some(&self.items[k])
    }
}

impl<T: PartialEq> HashSet<T> {
    pub fn new() -> Self { Self { items: Vec::new(), seed: nondet_seed() } }
    pub fn len(&self) -> usize { self.items.len() }
    pub fn is_empty(&self) -> bool { self.items.is_empty() }
    pub fn iter(&self) -> Iter<'_, T> { Iter { items: &self.items, seed: self.seed, pos: 0 } }
    pub fn contains(&self, t: &T) -> bool { self.items.iter().any(|x| x == t) }
    pub fn insert(&mut self, t: T) -> bool {
        if self.contains(&t) { return false; }
        self.items.push(t); self.seed = nondet_seed(); true
    }
}
// further std API, so that a tree refactored to use it still builds (semantics as in std; results
// that are collections are returned in this instance's iteration order)
impl<T: PartialEq> HashSet<T> {
    pub fn with_capacity(_n: usize) -> Self { Self::new() }
    pub fn clear(&mut self) { self.items.clear(); }
    pub fn get(&self, t: &T) -> Option<&T> { self.items.iter().find(|x| *x == t) }
    pub fn remove(&mut self, t: &T) -> bool {
        match self.items.iter().position(|x| x == t) {
            Some(i) => { self.items.remove(i); self.seed = nondet_seed(); true }
            None => false,
        }
    }
    pub fn retain<F: FnMut(&T) -> bool>(&mut self, f: F) { self.items.retain(f); self.seed = nondet_seed(); }
    pub fn is_disjoint(&self, o: &Self) -> bool { !self.items.iter().any(|x| o.contains(x)) }
    pub fn is_subset(&self, o: &Self) -> bool { self.items.iter().all(|x| o.contains(x)) }
    pub fn is_superset(&self, o: &Self) -> bool { o.is_subset(self) }
    pub fn intersection<'a>(&'a self, o: &'a Self) -> std::vec::IntoIter<&'a T> { self.iter().filter(|x| o.contains(x)).collect::<Vec<&T>>().into_iter() }
    pub fn difference<'a>(&'a self, o: &'a Self) -> std::vec::IntoIter<&'a T> { self.iter().filter(|x| !o.contains(x)).collect::<Vec<&T>>().into_iter() }
    pub fn union<'a>(&'a self, o: &'a Self) -> std::vec::IntoIter<&'a T> {
        let mut v: Vec<&T> = self.iter().collect();
        for x in o.iter() { if !self.contains(x) { v.push(x); } }
        v.into_iter()
    }
}
impl<T: PartialEq> Default for HashSet<T> { fn default() -> Self { Self::new() } }
impl<T: PartialEq> IntoIterator for HashSet<T> {
    type Item = T; type IntoIter = std::vec::IntoIter<T>;
    fn into_iter(self) -> std::vec::IntoIter<T> {
        let n = self.items.len();
        let seed = self.seed;
        let mut slots: Vec<Option<T>> = self.items.into_iter().map(Some).collect();
        let mut out = Vec::with_capacity(n);
        let mut i = 0;
        while i < n { out.push(slots[perm_index(seed, n, i)].take().unwrap()); i += 1; }
        out.into_iter()
    }
}
impl<T: PartialEq> PartialEq for HashSet<T> {
    fn eq(&self, o: &Self) -> bool {
        self.items.len() == o.items.len() && self.items.iter().all(|x| o.contains(x))
    }
}
impl<T: Eq> Eq for HashSet<T> {}
impl<T: PartialEq> Extend<T> for HashSet<T> {
    fn extend<I: IntoIterator<Item = T>>(&mut self, it: I) { for x in it { self.insert(x); } }
}
impl<T: PartialEq, const N: usize> From<[T; N]> for HashSet<T> {
    fn from(a: [T; N]) -> Self { let mut s = Self::new(); for x in a { s.insert(x); } s }
}
impl<T: PartialEq> FromIterator<T> for HashSet<T> {
    fn from_iter<I: IntoIterator<Item = T>>(it: I) -> Self { let mut s = Self::new(); s.extend(it); s }
}
impl<'a, T: PartialEq> IntoIterator for &'a HashSet<T> {
    type Item = &'a T; type IntoIter = Iter<'a, T>;
    fn into_iter(self) -> Iter<'a, T> { self.iter() }
}

#[derive(Debug)]
pub struct HashMap<K, V> { items: Vec<(K, V)>, seed: u8 }
impl<K: Clone, V: Clone> Clone for HashMap<K, V> {
    fn clone(&self) -> Self { Self { items: clone_with_room(&self.items), seed: self.seed } }
}
pub struct MapIter<'a, K, V> { items: &'a [(K, V)], seed: u8, pos: usize }
impl<'a, K, V> Iterator for MapIter<'a, K, V> {
    type Item = (&'a K, &'a V);
    fn next(&mut self) -> Option<Self::Item> {
        let n = self.items.len();
        if self.pos >= n { return None; }
        let k = perm_index(self.seed, n, self.pos);
        self.pos += 1;
        let (a, b) = &self.items[k];
        Some((a, b))
    }
}
pub struct IntoIter<K, V> { items: Vec<(K, V)> }
impl<K, V> Iterator for IntoIter<K, V> {
    type Item = (K, V);
    fn next(&mut self) -> Option<(K, V)> { self.items.pop() }
}
impl<K: Eq, V> HashMap<K, V> {
    pub fn new() -> Self { Self { items: Vec::new(), seed: nondet_seed() } }
    pub fn len(&self) -> usize { self.items.len() }
    pub fn is_empty(&self) -> bool { self.items.is_empty() }
    pub fn iter(&self) -> MapIter<'_, K, V> { MapIter { items: &self.items, seed: self.seed, pos: 0 } }
    pub fn keys(&self) -> impl Iterator<Item = &K> { self.iter().map(|(k, _)| k) }
    pub fn values(&self) -> impl Iterator<Item = &V> { self.iter().map(|(_, v)| v) }
    pub fn get<Q: ?Sized + Eq>(&self, k: &Q) -> Option<&V> where K: Borrow<Q> {
        for (a, b) in self.items.iter() { if a.borrow() == k { return Some(b); } }
        None
    }
    pub fn contains_key<Q: ?Sized + Eq>(&self, k: &Q) -> bool where K: Borrow<Q> { self.get(k).is_some() }
    pub fn insert(&mut self, k: K, v: V) -> Option<V> {
        for (a, b) in self.items.iter_mut() { if *a == k { return Some(std::mem::replace(b, v)); } }
        self.items.push((k, v)); self.seed = nondet_seed(); None
    }
}
impl<K: Eq, V> HashMap<K, V> {
    pub fn with_capacity(_n: usize) -> Self { Self::new() }
    pub fn clear(&mut self) { self.items.clear(); }
    pub fn get_mut<Q: ?Sized + Eq>(&mut self, k: &Q) -> Option<&mut V> where K: Borrow<Q> {
        for (a, b) in self.items.iter_mut() { if (*a).borrow() == k { return Some(b); } }
        None
    }
    pub fn get_key_value<Q: ?Sized + Eq>(&self, k: &Q) -> Option<(&K, &V)> where K: Borrow<Q> {
        for (a, b) in self.items.iter() { if a.borrow() == k { return Some((a, b)); } }
        None
    }
    pub fn remove<Q: ?Sized + Eq>(&mut self, k: &Q) -> Option<V> where K: Borrow<Q> {
        match self.items.iter().position(|(a, _)| a.borrow() == k) {
            Some(i) => { self.seed = nondet_seed(); Some(self.items.remove(i).1) }
            None => None,
        }
    }
    pub fn retain<F: FnMut(&K, &mut V) -> bool>(&mut self, mut f: F) { self.items.retain_mut(|(k, v)| f(k, v)); self.seed = nondet_seed(); }
    pub fn values_mut(&mut self) -> impl Iterator<Item = &mut V> { self.items.iter_mut().map(|(_, v)| v) }
    pub fn iter_mut(&mut self) -> impl Iterator<Item = (&K, &mut V)> { self.items.iter_mut().map(|(k, v)| (&*k, v)) }
    pub fn into_keys(self) -> impl Iterator<Item = K> { self.into_iter().map(|(k, _)| k) }
    pub fn into_values(self) -> impl Iterator<Item = V> { self.into_iter().map(|(_, v)| v) }
}
impl<K: Eq, V: PartialEq> PartialEq for HashMap<K, V> {
    fn eq(&self, o: &Self) -> bool {
        self.items.len() == o.items.len() && self.items.iter().all(|(k, v)| o.get(k) == Some(v))
    }
}
impl<K: Eq, V: Eq> Eq for HashMap<K, V> {}
impl<K: Eq, V> Extend<(K, V)> for HashMap<K, V> {
    fn extend<I: IntoIterator<Item = (K, V)>>(&mut self, it: I) { for (k, v) in it { self.insert(k, v); } }
}
impl<K: Eq, V> FromIterator<(K, V)> for HashMap<K, V> {
    fn from_iter<I: IntoIterator<Item = (K, V)>>(it: I) -> Self { let mut s = Self::new(); s.extend(it); s }
}
impl<K: Eq, V, const N: usize> From<[(K, V); N]> for HashMap<K, V> {
    fn from(a: [(K, V); N]) -> Self { let mut s = Self::new(); for (k, v) in a { s.insert(k, v); } s }
}
impl<'a, K: Eq, V> IntoIterator for &'a HashMap<K, V> {
    type Item = (&'a K, &'a V); type IntoIter = MapIter<'a, K, V>;
    fn into_iter(self) -> MapIter<'a, K, V> { self.iter() }
}
impl<K: Eq, V> IntoIterator for HashMap<K, V> {
    type Item = (K, V); type IntoIter = IntoIter<K, V>;
    fn into_iter(self) -> IntoIter<K, V> { IntoIter { items: self.items } }
}
impl<K: Eq, V> Default for HashMap<K, V> { fn default() -> Self { Self::new() } }

// ---------------------------------------------------------------------------------------------
// Leaking model of std::sync::Arc: shared immutable data with pointer identity, no refcount,
// no reclamation (so no recursive drop glue and no atomics for the model checker to explore).
use std::{fmt, hash::{Hash, Hasher}, ops::Deref};

// An `Arc<T>` is ONE thin pointer to a leaked holder that contains the (possibly fat) reference to
// the payload.  With a fat reference stored directly, `Variable::String(Arc<str>)` /
// `Type::Tuple(Arc<[Type]>)` carry two words in an enum payload and CBMC no longer recovers the
// length (measured: `"".chars().count()` unwound the 32-byte word loop of `do_count_chars`).
pub struct Holder<T: ?Sized + 'static> { r: &'static T }
pub struct Arc<T: ?Sized + 'static> { h: &'static Holder<T> }
impl<T: ?Sized> Arc<T> {
    pub fn from_ref(r: &'static T) -> Self { Arc { h: Box::leak(Box::new(Holder { r })) } }
    pub fn ptr_eq(a: &Self, b: &Self) -> bool { std::ptr::eq(a.h as *const Holder<T>, b.h as *const Holder<T>) }
}
impl<T: ?Sized> Clone for Arc<T> { fn clone(&self) -> Self { Arc { h: self.h } } }
impl<T: ?Sized> Deref for Arc<T> { type Target = T; fn deref(&self) -> &T { self.h.r } }
impl<T: ?Sized> AsRef<T> for Arc<T> { fn as_ref(&self) -> &T { self.h.r } }
impl<T: ?Sized> Borrow<T> for Arc<T> { fn borrow(&self) -> &T { self.h.r } }
impl<T> Arc<T> {
    pub fn new(t: T) -> Self { Arc::from_ref(Box::leak(Box::new(t))) }
}
impl<T: ?Sized> Arc<T> {
    pub fn as_ptr(this: &Self) -> *const T { this.h.r as *const T }
    /// the model does not count references (the crate never observes counts): reported as shared
    pub fn strong_count(_this: &Self) -> usize { 2 }
}
impl<T: Clone> Arc<T> {
    pub fn make_mut(this: &mut Self) -> &mut T {
        let b: &'static mut T = Box::leak(Box::new((*this.h.r).clone()));
        let p: *mut T = b;
        *this = Arc::from_ref(unsafe { &*p });
        unsafe { &mut *p }
    }
    pub fn unwrap_or_clone(this: Self) -> T { (*this.h.r).clone() }
}
impl<T> From<T> for Arc<T> { fn from(t: T) -> Self { Arc::new(t) } }
// Vec::leak / String::leak do not shrink the allocation: `into_boxed_slice` would realloc with a symbolic
// size whenever the length is symbolic (slices), which CBMC turns into an array-theory memcpy
impl<T> From<Vec<T>> for Arc<[T]> { fn from(v: Vec<T>) -> Self { let s: &'static mut [T] = v.leak(); Arc::from_ref(s) } }
impl<T> From<Box<[T]>> for Arc<[T]> { fn from(v: Box<[T]>) -> Self { Arc::from_ref(Box::leak(v)) } }
impl<T, const N: usize> From<[T; N]> for Arc<[T]> { fn from(v: [T; N]) -> Self { Arc::from(Vec::from(v)) } }
impl<T: Clone> From<&[T]> for Arc<[T]> { fn from(v: &[T]) -> Self { Arc::from(v.to_vec()) } }
impl From<&str> for Arc<str> { fn from(s: &str) -> Self { let r: &'static mut str = String::from(s).leak(); Arc::from_ref(r) } }
impl From<String> for Arc<str> { fn from(s: String) -> Self { let r: &'static mut str = s.leak(); Arc::from_ref(r) } }
impl<T> FromIterator<T> for Arc<[T]> { fn from_iter<I: IntoIterator<Item = T>>(it: I) -> Self { Arc::from(it.into_iter().collect::<Vec<T>>()) } }
impl<T: ?Sized + PartialEq> PartialEq for Arc<T> { fn eq(&self, o: &Self) -> bool { *self.h.r == *o.h.r } }
impl<T: ?Sized + Eq> Eq for Arc<T> {}
impl<T: ?Sized + Hash> Hash for Arc<T> { fn hash<H: Hasher>(&self, h: &mut H) { self.h.r.hash(h) } }
impl<T: ?Sized + fmt::Debug> fmt::Debug for Arc<T> { fn fmt(&self, f: &mut fmt::Formatter<'_>) -> fmt::Result { self.h.r.fmt(f) } }
impl<T: ?Sized + fmt::Display> fmt::Display for Arc<T> { fn fmt(&self, f: &mut fmt::Formatter<'_>) -> fmt::Result { self.h.r.fmt(f) } }
impl<T: Default> Default for Arc<T> { fn default() -> Self { Arc::new(T::default()) } }
impl From<std::borrow::Cow<'_, str>> for Arc<str> { fn from(s: std::borrow::Cow<'_, str>) -> Self { Arc::from(s.into_owned()) } }


// ---------------------------------------------------------------------------------------------
// Single-threaded model of std::sync::RwLock.  Kani has no threads, so a lock is never contended
// and never poisoned; std's futex implementation however keeps its state word inside the (heap
// resident) `Mut` object, CBMC cannot resolve it there and explores `write_contended` /
// `read_contended` spin loops and futex syscalls on every cell access (measured: ~20 s per
// assignment).  The model grants every request.  What it cannot show: anything about concurrency
// (C16 is not claimed).
pub struct RwLock<T> { v: core::cell::UnsafeCell<T> }
unsafe impl<T: Send> Send for RwLock<T> {}
unsafe impl<T: Send + Sync> Sync for RwLock<T> {}
#[derive(Debug)]
pub struct NeverPoisoned;
pub struct RwLockReadGuard<'a, T> { r: &'a T }
pub struct RwLockWriteGuard<'a, T> { r: &'a mut T }
impl<T> Deref for RwLockReadGuard<'_, T> { type Target = T; fn deref(&self) -> &T { self.r } }
impl<T> Deref for RwLockWriteGuard<'_, T> { type Target = T; fn deref(&self) -> &T { self.r } }
impl<T> std::ops::DerefMut for RwLockWriteGuard<'_, T> { fn deref_mut(&mut self) -> &mut T { self.r } }
impl<T> RwLock<T> {
    pub fn new(t: T) -> Self { RwLock { v: core::cell::UnsafeCell::new(t) } }
    pub fn read(&self) -> Result<RwLockReadGuard<'_, T>, NeverPoisoned> { Ok(RwLockReadGuard { r: unsafe { &*self.v.get() } }) }
    pub fn write(&self) -> Result<RwLockWriteGuard<'_, T>, NeverPoisoned> { Ok(RwLockWriteGuard { r: unsafe { &mut *self.v.get() } }) }
}
impl<T> RwLock<T> {
    pub fn try_read(&self) -> Result<RwLockReadGuard<'_, T>, NeverPoisoned> { self.read() }
    pub fn try_write(&self) -> Result<RwLockWriteGuard<'_, T>, NeverPoisoned> { self.write() }
    pub fn into_inner(self) -> Result<T, NeverPoisoned> { Ok(self.v.into_inner()) }
    pub fn get_mut(&mut self) -> Result<&mut T, NeverPoisoned> { Ok(self.v.get_mut()) }
}
impl<T> From<T> for RwLock<T> { fn from(t: T) -> Self { RwLock::new(t) } }
impl<T: fmt::Debug> fmt::Debug for RwLock<T> { fn fmt(&self, f: &mut fmt::Formatter<'_>) -> fmt::Result { unsafe { &*self.v.get() }.fmt(f) } }
