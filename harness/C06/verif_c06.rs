//@ inject: src/instruction.rs
//@ modname: verif_c06
//@ property: C06
//@ tier: quick

//! C06 (the part that is decided at run time, on instruction trees): a function value captures the
//! values its free names have when it is created (`AnonymousFunction::exec` substitutes them into the
//! body); a parameter and a declaration that precedes the use inside the body shadow the captured
//! value, a declaration that follows the use or sits in a nested block does not; nothing the callee
//! declares is visible to its caller afterwards.  Names are resolved by the real `LocalVariables`
//! layers (`from_params`, `create_layer`, `Set::recreate`) and the real `Interpreter` layers.
//! The resolution of names while *parsing* (pest pairs) is outside - see check.json.
//! Measured: one function creation + one call costs 140-370 s of CBMC; the scenarios with a parameter,
//! a second or third body statement or a nested block ran out of memory (14 GB cap) or time (800 s) and
//! are kept under the feature `verif_experimental`, which no tier enables.
use super::*;
use crate::function::{Body, Function, Param, Params};
use crate::instruction::block::Block;
use crate::instruction::destruct_tuple::DestructTuple;
use crate::instruction::function::FunctionDeclaration;
use crate::instruction::function::AnonymousFunction;
use crate::instruction::local_variable::LocalVariables;
use crate::instruction::set::Set;
use crate::unary_operator::UnaryOperator;
use crate::verif_common::*;
use crate::verif_model::Arc;

use crate::instruction::verif_gate::{K_ANONYMOUSFUNCTION, K_BLOCK, K_DESTRUCTTUPLE, K_FUNCTIONDECLARATION, K_SET, K_UNARYOPERATION, K_VARIABLE};
const V: u32 = 1 << K_VARIABLE;
const UO: u32 = 1 << K_UNARYOPERATION;
const BL: u32 = 1 << K_BLOCK;
const ST: u32 = 1 << K_SET;
const AF: u32 = 1 << K_ANONYMOUSFUNCTION;
const DT: u32 = 1 << K_DESTRUCTTUPLE;
const FD: u32 = 1 << K_FUNCTIONDECLARATION;
fn levels(l0: u32, l1: u32, l2: u32, l3: u32) {
    use crate::instruction::verif_gate::*;
    allow_binops(0);
    allow_unops(u(UnaryOperator::Return) | u(UnaryOperator::Indirection));
    allow_mask(u32::MAX);
    crate::variable::verif_valgate::allow_vals(1 << crate::variable::verif_valgate::V_FUNCTION);
    allow_at(0, l0, u64::MAX);
    allow_at(1, l1, u64::MAX);
    allow_at(2, l2, u64::MAX);
    allow_at(3, l3, u64::MAX);
}
fn iws(i: Instruction) -> InstructionWithStr {
    InstructionWithStr { instruction: i, str: "e".into() }
}
fn lit(v: i64) -> Instruction {
    Instruction::Variable(Variable::Int(v))
}
fn name(n: &'static str) -> Instruction {
    local(n, Type::Int)
}
fn ret(i: Instruction) -> Instruction {
    UnaryOperation { instruction: i, op: UnaryOperator::Return }.into()
}
fn set(n: &'static str, i: Instruction) -> Instruction {
    Set { ident: n.into(), instruction: iws(i) }.into()
}
fn lambda(params: Vec<Param>, body: Vec<InstructionWithStr>) -> AnonymousFunction {
    AnonymousFunction { params: Params(Arc::from(params)), body: Arc::from(body), return_type: Type::Int }
}
fn create(f: &AnonymousFunction, interp: &mut Interpreter) -> Arc<Function> {
    match f.exec(interp) {
        Ok(Variable::Function(f)) => f,
        _ => panic!("creating the function value failed"),
    }
}
fn is_int(r: &Result<Variable, ExecError>, x: i64) -> bool {
    matches!(r, Ok(Variable::Int(v)) if *v == x)
}

/// x := a ; f := () -> int { return x } ; x := b ; f()  ==  a
#[kani::proof]
#[kani::unwind(5)]
#[kani::stub(alloc::fmt::format, crate::verif_common::stub_format)]
pub fn capture_by_value_at_creation() {
    levels(UO | V, V, 0, 0);
    let (a, b): (i64, i64) = (kani::any(), kani::any());
    let mut interp = Interpreter::without_stdlib();
    interp.insert("x".into(), Variable::Int(a));
    let f = create(&lambda(crate::vv![], crate::vv![iws(ret(name("x")))]), &mut interp);
    interp.insert("x".into(), Variable::Int(b));
    assert!(is_int(&f.exec_with_args(&[]), a));
    kani::cover!(a != b);
}
/// the same when the function is run in the creator's own environment (the zero-argument call path
/// `f()` hands the caller's interpreter to Function::exec): still a
#[kani::proof]
#[kani::unwind(5)]
#[kani::stub(alloc::fmt::format, crate::verif_common::stub_format)]
pub fn capture_by_value_zero_argument_call_path() {
    levels(UO | V, V, 0, 0);
    let (a, b): (i64, i64) = (kani::any(), kani::any());
    let mut interp = Interpreter::without_stdlib();
    interp.insert("x".into(), Variable::Int(a));
    let f = create(&lambda(crate::vv![], crate::vv![iws(ret(name("x")))]), &mut interp);
    interp.insert("x".into(), Variable::Int(b));
    assert!(is_int(&f.exec(&mut interp), a));
    kani::cover!(a != b);
}

/// a parameter shadows a captured name:  x := a ; f := (x: int) -> int { return x } ; f(c) == c
#[cfg(feature = "verif_experimental")]
#[kani::proof]
#[kani::unwind(5)]
#[kani::stub(alloc::fmt::format, crate::verif_common::stub_format)]
pub fn parameter_shadows_captured_name() {
    levels(UO | V, V, 0, 0);
    let (a, c): (i64, i64) = (kani::any(), kani::any());
    let mut interp = Interpreter::without_stdlib();
    interp.insert("x".into(), Variable::Int(a));
    let f = create(&lambda(crate::vv![Param { name: "x".into(), var_type: Type::Int }], crate::vv![iws(ret(name("x")))]), &mut interp);
    let args = crate::vv![Variable::Int(c)];
    assert!(is_int(&f.exec_with_args(&args), c));
    kani::cover!(a != c);
}

/// inside the body a name denotes the nearest declaration that precedes its use:
///   x := a ; f := () -> int { y := x ; x := k ; return y }  == a   /   ... return x }  == k
fn body_decl(which: &'static str) -> (Result<Variable, ExecError>, i64, i64) {
    levels(ST | UO | V, V, 0, 0);
    let (a, k): (i64, i64) = (kani::any(), kani::any());
    let mut interp = Interpreter::without_stdlib();
    interp.insert("x".into(), Variable::Int(a));
    let body = crate::vv![iws(set("y", name("x"))), iws(set("x", lit(k))), iws(ret(name(which)))];
    let f = create(&lambda(crate::vv![], body), &mut interp);
    (f.exec_with_args(&[]), a, k)
}
#[cfg(feature = "verif_experimental")]
#[kani::proof]
#[kani::unwind(5)]
#[kani::stub(alloc::fmt::format, crate::verif_common::stub_format)]
pub fn declaration_in_body_does_not_reach_earlier_uses() {
    let (r, a, k) = body_decl("y");
    assert!(is_int(&r, a));
    kani::cover!(a != k);
}
#[cfg(feature = "verif_experimental")]
#[kani::proof]
#[kani::unwind(5)]
#[kani::stub(alloc::fmt::format, crate::verif_common::stub_format)]
pub fn declaration_in_body_shadows_later_uses() {
    let (r, a, k) = body_decl("x");
    assert!(is_int(&r, k));
    kani::cover!(a != k);
}

/// a declaration inside a nested block is invisible after the block:
///   x := a ; f := () -> int { { x := k } ; return x }  ==  a
#[cfg(feature = "verif_experimental")]
#[kani::proof]
#[kani::unwind(5)]
#[kani::stub(alloc::fmt::format, crate::verif_common::stub_format)]
pub fn declaration_in_block_invisible_after_it() {
    levels(BL | UO | V, ST | V, V, 0);
    let (a, k): (i64, i64) = (kani::any(), kani::any());
    let mut interp = Interpreter::without_stdlib();
    interp.insert("x".into(), Variable::Int(a));
    let blk: Instruction = Block { instructions: Arc::from(crate::vv![iws(set("x", lit(k)))]) }.into();
    let f = create(&lambda(crate::vv![], crate::vv![iws(blk), iws(ret(name("x")))]), &mut interp);
    assert!(is_int(&f.exec_with_args(&[]), a));
    kani::cover!(a != k);
}

/// the same with a *parameter* (not substituted at creation, looked up at run time in the layers of
/// the interpreter):  f := (p: int) -> int { { p := k } ; return p } ; f(c) == c
#[cfg(feature = "verif_experimental")]
#[kani::proof]
#[kani::unwind(5)]
#[kani::stub(alloc::fmt::format, crate::verif_common::stub_format)]
pub fn block_declaration_does_not_overwrite_parameter() {
    levels(BL | UO | V, ST | V, V, 0);
    let (c, k): (i64, i64) = (kani::any(), kani::any());
    let mut interp = Interpreter::without_stdlib();
    let blk: Instruction = Block { instructions: Arc::from(crate::vv![iws(set("p", lit(k)))]) }.into();
    let f = create(&lambda(crate::vv![Param { name: "p".into(), var_type: Type::Int }], crate::vv![iws(blk), iws(ret(name("p")))]), &mut interp);
    let args = crate::vv![Variable::Int(c)];
    assert!(is_int(&f.exec_with_args(&args), c));
    kani::cover!(c != k);
}

/// every declaring statement form inside a block ends with the block - also when it is the block's
/// only statement:  f := (p: int) -> int { { (p, q) := (k, k) } ; return p } ; f(c) == c
#[cfg(feature = "verif_experimental")]
#[kani::proof]
#[kani::unwind(5)]
#[kani::stub(alloc::fmt::format, crate::verif_common::stub_format)]
pub fn block_destructuring_does_not_overwrite_parameter() {
    levels(BL | UO | V, DT | V, V, 0);
    crate::variable::verif_valgate::allow_vals((1 << crate::variable::verif_valgate::V_FUNCTION) | (1 << crate::variable::verif_valgate::V_TUPLE));
    let (c, k): (i64, i64) = (kani::any(), kani::any());
    let mut interp = Interpreter::without_stdlib();
    let pair = Variable::Tuple(Arc::from(crate::vv![Variable::Int(k), Variable::Int(k)]));
    let idents: Vec<Arc<str>> = crate::vv!["p".into(), "q".into()];
    let dt: Instruction = DestructTuple { idents: Arc::from(idents), instruction: iws(Instruction::Variable(pair)) }.into();
    let blk: Instruction = Block { instructions: Arc::from(crate::vv![iws(dt)]) }.into();
    let f = create(&lambda(crate::vv![Param { name: "p".into(), var_type: Type::Int }], crate::vv![iws(blk), iws(ret(name("p")))]), &mut interp);
    let args = crate::vv![Variable::Int(c)];
    assert!(is_int(&f.exec_with_args(&args), c));
    kani::cover!(c != k);
}
/// ... and for a function declaration:  f := (p: int) -> int { { p() -> int { return k } } ; return p } ; f(c) == c
#[cfg(feature = "verif_experimental")]
#[kani::proof]
#[kani::unwind(5)]
#[kani::stub(alloc::fmt::format, crate::verif_common::stub_format)]
pub fn block_function_declaration_does_not_overwrite_parameter() {
    levels(BL | UO | V, FD | V, UO | V, V);
    let (c, k): (i64, i64) = (kani::any(), kani::any());
    let mut interp = Interpreter::without_stdlib();
    let decl: Instruction = FunctionDeclaration { ident: "p".into(), params: Params(Arc::from(Vec::<Param>::new())), body: Arc::from(crate::vv![iws(ret(lit(k)))]), return_type: Type::Int }.into();
    let blk: Instruction = Block { instructions: Arc::from(crate::vv![iws(decl)]) }.into();
    let f = create(&lambda(crate::vv![Param { name: "p".into(), var_type: Type::Int }], crate::vv![iws(blk), iws(ret(name("p")))]), &mut interp);
    let args = crate::vv![Variable::Int(c)];
    assert!(is_int(&f.exec_with_args(&args), c));
    kani::cover!(c != k);
}

/// a function can refer to itself by its declared name on every call path (exec_with_args binds the
/// name on each call):  g(n: int) -> any { return g } ; g(c) is g itself
#[cfg(feature = "verif_experimental")]
#[kani::proof]
#[kani::unwind(5)]
#[kani::stub(alloc::fmt::format, crate::verif_common::stub_format)]
pub fn declared_name_is_bound_in_every_call() {
    levels(FD | UO | V, UO | V, V, 0);
    let c: i64 = kani::any();
    let mut interp = Interpreter::without_stdlib();
    let gt = Type::Function(Arc::new(crate::variable::FunctionType { params: Arc::from(crate::vv![Type::Int]), return_type: Type::Any }));
    let decl = FunctionDeclaration { ident: "g".into(), params: Params(Arc::from(crate::vv![Param { name: "n".into(), var_type: Type::Int }])), body: Arc::from(crate::vv![iws(ret(local("g", gt)))]), return_type: Type::Any };
    let g = match decl.exec(&mut interp) {
        Ok(Variable::Function(g)) => g,
        _ => panic!("declaring the function failed"),
    };
    // the declaration is visible to the declaring scope under its name
    assert!(matches!(interp.get_variable("g"), Some(Variable::Function(h)) if Arc::ptr_eq(h, &g)));
    let args = crate::vv![Variable::Int(c)];
    assert!(matches!(g.exec_with_args(&args), Ok(Variable::Function(h)) if Arc::ptr_eq(&h, &g)));
    kani::cover!(true);
}
/// a parameter named like the function shadows it:  h(h: int) -> int { return h } ; h(c) == c
#[cfg(feature = "verif_experimental")]
#[kani::proof]
#[kani::unwind(5)]
#[kani::stub(alloc::fmt::format, crate::verif_common::stub_format)]
pub fn parameter_shadows_the_function_name() {
    levels(FD | UO | V, UO | V, V, 0);
    let c: i64 = kani::any();
    let mut interp = Interpreter::without_stdlib();
    let decl2 = FunctionDeclaration { ident: "h".into(), params: Params(Arc::from(crate::vv![Param { name: "h".into(), var_type: Type::Int }])), body: Arc::from(crate::vv![iws(ret(name("h")))]), return_type: Type::Int };
    let h = match decl2.exec(&mut interp) {
        Ok(Variable::Function(h)) => h,
        _ => panic!("declaring the function failed"),
    };
    let args = crate::vv![Variable::Int(c)];
    assert!(is_int(&h.exec_with_args(&args), c));
    kani::cover!(true);
}

/// nothing the callee declares is visible to (or overwrites a name of) its caller:
///   x := a ; f := () -> int { x := k ; z := k ; return 0 } ; f() ; x == a, z undeclared
#[cfg(feature = "verif_experimental")]
#[kani::proof]
#[kani::unwind(5)]
#[kani::stub(alloc::fmt::format, crate::verif_common::stub_format)]
pub fn callee_declarations_stay_in_the_callee() {
    levels(ST | UO | V, V, 0, 0);
    let (a, k): (i64, i64) = (kani::any(), kani::any());
    let mut interp = Interpreter::without_stdlib();
    interp.insert("x".into(), Variable::Int(a));
    let f = create(&lambda(crate::vv![], crate::vv![iws(set("x", lit(k))), iws(set("z", lit(k))), iws(ret(lit(0)))]), &mut interp);
    assert!(is_int(&f.exec_with_args(&[]), 0));
    assert!(matches!(interp.get_variable("x"), Some(Variable::Int(v)) if *v == a));
    assert!(interp.get_variable("z").is_none());
    kani::cover!(a != k);
}

/// the captured value is a *value*: capturing a cell captures the cell (aliasing, C13), capturing an
/// int captures the number - a later `x := ..` in the creator does not reach the closure, a write
/// through the captured cell does
#[kani::proof]
#[kani::unwind(5)]
#[kani::stub(alloc::fmt::format, crate::verif_common::stub_format)]
pub fn captured_cell_is_shared_captured_int_is_not() {
    levels(UO | V, UO | V, V, 0);
    crate::variable::verif_valgate::allow_vals((1 << crate::variable::verif_valgate::V_FUNCTION) | (1 << crate::variable::verif_valgate::V_MUT));
    let (a, b): (i64, i64) = (kani::any(), kani::any());
    let cell = new_cell(Type::Int, Variable::Int(a));
    let mut interp = Interpreter::without_stdlib();
    interp.insert("c".into(), Variable::Mut(cell.clone()));
    let deref: Instruction = UnaryOperation { instruction: local("c", Type::Mut(Arc::new(Type::Int))), op: UnaryOperator::Indirection }.into();
    let f = create(&lambda(crate::vv![], crate::vv![iws(ret(deref))]), &mut interp);
    // rebinding the name in the creator does not reach the closure ...
    interp.insert("c".into(), Variable::Mut(new_cell(Type::Int, Variable::Int(0))));
    // ... a write to the captured cell does
    *cell.variable.write().unwrap() = Variable::Int(b);
    assert!(is_int(&f.exec_with_args(&[]), b));
    kani::cover!(a != b);
}
