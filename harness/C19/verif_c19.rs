//@ inject: src/variable.rs
//@ modname: verif_c19
//@ property: C19
//@ tier: quick

//! C19 - equality is by content.  Shapes (kind, length, stored element type, provenance path)
//! are enumerated concretely; every scalar inside is symbolic (full width).
use super::*;
use crate::verif_common::*;
use crate::verif_model::{Arc, HashMap};

fn arr_t(t: Type, elems: Vec<Variable>) -> Variable {
    Variable::Array(Arc::new(Array::new_with_type(t, elems.into())))
}
fn stored(k: usize) -> Type {
    match k {
        0 => Type::Never,
        1 => Type::Int,
        2 => Type::Any,
        3 => Type::Int | Type::Float,
        _ => Type::Int | Type::String,
    }
}
fn tup(v: Vec<Variable>) -> Variable {
    Variable::Tuple(v.into())
}
fn strct(fields: Vec<(&'static str, Variable)>) -> Variable {
    let mut m: HashMap<Arc<str>, Variable> = HashMap::new();
    for (k, v) in fields {
        m.insert(k.into(), v);
    }
    Variable::Struct(Arc::new(m))
}

/// arrays: equal iff same length and element-wise equal, whatever the stored element types
fn array_pair(s1: usize, s2: usize) {
    let (x, y, p, q): (i64, i64, i64, i64) = (kani::any(), kani::any(), kani::any(), kani::any());
    // length 0
    assert!(arr_t(stored(s1), crate::vv![]) == arr_t(stored(s2), crate::vv![]));
    // length 1 and 2, symbolic contents
    let a1 = arr_t(stored(s1.max(1)), crate::vv![Variable::Int(x)]);
    let b1 = arr_t(stored(s2.max(1)), crate::vv![Variable::Int(p)]);
    assert!((a1 == b1) == (x == p));
    let a2 = arr_t(stored(s1.max(1)), crate::vv![Variable::Int(x), Variable::Int(y)]);
    let b2 = arr_t(stored(s2.max(1)), crate::vv![Variable::Int(p), Variable::Int(q)]);
    assert!((a2 == b2) == (x == p && y == q));
    assert!((b2 == a2) == (x == p && y == q));
    // different lengths are never equal
    assert!(a1 != a2);
    assert!(arr_t(stored(s1), crate::vv![]) != b1);
}
#[kani::proof]
#[kani::unwind(5)]
#[kani::stub(alloc::fmt::format, crate::verif_common::stub_format)]
pub fn array_eq_ignores_stored_type() {
    crate::verif_model::set_order(0);
    array_pair(0, 1); // [] stored as [!]  vs  [int]
    array_pair(1, 2); // [int] vs [any]
    array_pair(1, 3); // [int] vs [int|float]
    kani::cover!(true);
}
#[kani::proof]
#[kani::unwind(5)]
#[kani::stub(alloc::fmt::format, crate::verif_common::stub_format)]
pub fn array_eq_ignores_stored_type_unions() {
    crate::verif_model::set_order(1);
    array_pair(3, 4); // [int|float] vs [int|string]
    array_pair(2, 0); // [any] vs [!]
    array_pair(3, 3);
    kani::cover!(true);
}

/// provenance: the same content produced by literal construction, concatenation (incl. the
/// empty-operand shortcuts), repetition and `of_type` defaults compares equal
#[kani::proof]
#[kani::unwind(6)]
#[kani::stub(alloc::fmt::format, crate::verif_common::stub_format)]
pub fn array_eq_across_producers() {
    let (x, y): (i64, i64) = (kani::any(), kani::any());
    let lit = Variable::from(crate::vv![Variable::Int(x), Variable::Int(y)]);
    let cat = Variable::Array(Array::concat(
        Arc::new(Array::from(crate::vv![Variable::Int(x)])),
        Arc::new(Array::new_with_type(Type::Int | Type::Float, crate::vv![Variable::Int(y)].into())),
    ));
    assert!(lit == cat && cat == lit);
    let empty_l = Variable::Array(Array::concat(
        Arc::new(Array::new_with_type(Type::Float, crate::vv![].into())),
        Arc::new(Array::from(crate::vv![Variable::Int(x), Variable::Int(y)])),
    ));
    let empty_r = Variable::Array(Array::concat(
        Arc::new(Array::from(crate::vv![Variable::Int(x), Variable::Int(y)])),
        Arc::new(Array::new_with_type(Type::Any, crate::vv![].into())),
    ));
    assert!(lit == empty_l && lit == empty_r);
    let rep = Variable::Array(Arc::new(Array::new_repeat(Variable::Int(x), 2)));
    assert!((rep == lit) == (x == y));
    // default value of an array type vs the empty literal
    let dflt = Variable::of_type(&Type::Array(Arc::new(Type::Int | Type::String))).unwrap();
    assert!(dflt == Variable::from(Vec::<Variable>::new()));
    kani::cover!(x == y);
}

/// tuples: element-wise; different arity unequal in both directions
#[kani::proof]
#[kani::unwind(5)]
#[kani::stub(alloc::fmt::format, crate::verif_common::stub_format)]
pub fn tuple_eq() {
    let (x, y, p, q): (i64, i64, i64, i64) = (kani::any(), kani::any(), kani::any(), kani::any());
    let t1 = tup(crate::vv![Variable::Int(x), Variable::Int(y)]);
    let t2 = tup(crate::vv![Variable::Int(p), Variable::Int(q)]);
    assert!((t1 == t2) == (x == p && y == q));
    assert!((t2 == t1) == (x == p && y == q));
    assert!(t1 != tup(crate::vv![Variable::Int(x)]));
    assert!(tup(crate::vv![Variable::Int(x)]) != t1);
    kani::cover!(x == p && y == q);
}
/// nesting: array (with different stored types) inside a tuple
#[cfg(feature = "verif_experimental")] // values nested two levels deep: did not finish in 400 s (no tier enables it)
#[kani::proof]
#[kani::unwind(5)]
#[kani::stub(alloc::fmt::format, crate::verif_common::stub_format)]
pub fn tuple_eq_nested_array() {
    // the values compared are ints, (), arrays and tuples (a value read back from a nested heap slice has an
    // unresolved kind: the string / struct arms of `==` would be walked on garbage)
    verif_valgate::allow_vals((1 << verif_valgate::V_ARRAY) | (1 << verif_valgate::V_TUPLE));
    let (x, p): (i64, i64) = (kani::any(), kani::any());
    let n1 = tup(crate::vv![arr_t(Type::Any, crate::vv![Variable::Int(x)]), Variable::Void]);
    let n2 = tup(crate::vv![arr_t(Type::Int, crate::vv![Variable::Int(p)]), Variable::Void]);
    assert!((n1 == n2) == (x == p));
    kani::cover!(x == p);
}
/// structs: field-wise by key whatever the insertion order; key sets must agree, in both directions
#[kani::proof]
#[kani::unwind(5)]
#[kani::stub(alloc::fmt::format, crate::verif_common::stub_format)]
pub fn struct_eq() {
    crate::verif_model::set_order(0);
    let (x, y, p, q): (i64, i64, i64, i64) = (kani::any(), kani::any(), kani::any(), kani::any());
    let s1 = strct(crate::vv![("a", Variable::Int(x)), ("b", Variable::Int(y))]);
    let s2 = strct(crate::vv![("b", Variable::Int(q)), ("a", Variable::Int(p))]);
    assert!((s1 == s2) == (x == p && y == q));
    assert!((s2 == s1) == (x == p && y == q));
    kani::cover!(x == p && y == q);
}
#[kani::proof]
#[kani::unwind(5)]
#[kani::stub(alloc::fmt::format, crate::verif_common::stub_format)]
pub fn struct_key_sets_must_agree() {
    crate::verif_model::set_order(1);
    let (x, y): (i64, i64) = (kani::any(), kani::any());
    let s1 = strct(crate::vv![("a", Variable::Int(x)), ("b", Variable::Int(y))]);
    // key sets differ: unequal in both directions, also when the shared fields agree
    let sub = strct(crate::vv![("a", Variable::Int(x))]);
    assert!(sub != s1);
    assert!(s1 != sub);
    assert!(strct(crate::vv![]) != sub && sub != strct(crate::vv![]));
    let renamed = strct(crate::vv![("a", Variable::Int(x)), ("c", Variable::Int(y))]);
    assert!(s1 != renamed && renamed != s1);
    kani::cover!(true);
}

/// values of different kinds are unequal; scalars by value; floats by IEEE; strings by content
#[kani::proof]
#[kani::unwind(10)]
#[kani::stub(alloc::fmt::format, crate::verif_common::stub_format)]
pub fn kinds_and_scalars() {
    let (x, p): (i64, i64) = (kani::any(), kani::any());
    let (f, g): (f64, f64) = (kani::any(), kani::any());
    let (b, c): (bool, bool) = (kani::any(), kani::any());
    assert!((Variable::Int(x) == Variable::Int(p)) == (x == p));
    assert!((Variable::Float(f) == Variable::Float(g)) == (f == g));
    assert!((Variable::Bool(b) == Variable::Bool(c)) == (b == c));
    assert!(Variable::Void == Variable::Void);
    // cross-kind
    let vals = [
        Variable::Int(x), Variable::Float(f), Variable::Bool(b), Variable::Void,
        Variable::String("1".into()), arr_t(Type::Int, crate::vv![Variable::Int(x)]), tup(crate::vv![Variable::Int(x)]),
        strct(crate::vv![("a", Variable::Int(x))]),
    ];
    let mut i = 0;
    while i < vals.len() {
        let mut j = 0;
        while j < vals.len() {
            if i != j {
                assert!(vals[i] != vals[j]);
            }
            j += 1;
        }
        i += 1;
    }
    // strings: separately allocated, by content (incl. multi-byte)
    let s1: Variable = "a\u{e9}".into();
    let s2: Variable = String::from("a\u{e9}").into();
    assert!(s1 == s2);
    assert!(s1 != Variable::String("a".into()));
    assert!(Variable::String("".into()) == Variable::String(String::new().into()));
    kani::cover!(f.is_nan());
    kani::cover!(f == g && f.to_bits() != g.to_bits());
}

/// cells and functions compare by identity
#[kani::proof]
#[kani::unwind(6)]
#[kani::stub(alloc::fmt::format, crate::verif_common::stub_format)]
pub fn identity_for_cells_and_functions() {
    let x: i64 = kani::any();
    let c1 = new_cell(Type::Int, Variable::Int(x));
    let c2 = new_cell(Type::Int, Variable::Int(x));
    assert!(Variable::Mut(c1.clone()) == Variable::Mut(c1.clone()));
    assert!(Variable::Mut(c1.clone()) != Variable::Mut(c2.clone()));
    // inside containers too
    assert!(tup(crate::vv![Variable::Mut(c1.clone())]) == tup(crate::vv![Variable::Mut(c1.clone())]));
    assert!(tup(crate::vv![Variable::Mut(c1.clone())]) != tup(crate::vv![Variable::Mut(c2)]));
    let ft = FunctionType { params: Arc::from(Vec::<Type>::new()), return_type: Type::Int };
    let f1: Arc<crate::function::Function> = Arc::new(crate::function::Function::of_type(&ft).unwrap());
    let f2: Arc<crate::function::Function> = Arc::new(crate::function::Function::of_type(&ft).unwrap());
    assert!(Variable::Function(f1.clone()) == Variable::Function(f1.clone()));
    assert!(Variable::Function(f1) != Variable::Function(f2));
    kani::cover!(true);
}

/// symmetry, reflexivity (no NaN inside) and `!=` is the negation of `==`, on mixed shapes
fn sym_pair(a: &Variable, b: &Variable) {
    let e1 = a == b;
    let e2 = b == a;
    assert!(e1 == e2);
    assert!((a != b) == !e1);
}
#[kani::proof]
#[kani::unwind(5)]
#[kani::stub(alloc::fmt::format, crate::verif_common::stub_format)]
pub fn symmetry_reflexivity_negation_arrays() {
    crate::verif_model::set_order(0);
    let (x, p): (i64, i64) = (kani::any(), kani::any());
    let f: f64 = kani::any();
    let a = arr_t(Type::Any, crate::vv![Variable::Int(x), Variable::Float(f)]);
    let b = arr_t(Type::Int | Type::Float, crate::vv![Variable::Int(p), Variable::Float(f)]);
    sym_pair(&a, &b);
    if !f.is_nan() {
        assert!(a == a);
    }
    kani::cover!(x == p);
    kani::cover!(f.is_nan());
}
#[cfg(feature = "verif_experimental")] // values nested two levels deep: did not finish in 400 s (no tier enables it)
#[kani::proof]
#[kani::unwind(5)]
#[kani::stub(alloc::fmt::format, crate::verif_common::stub_format)]
pub fn symmetry_reflexivity_negation_nested() {
    verif_valgate::allow_vals((1 << verif_valgate::V_ARRAY) | (1 << verif_valgate::V_TUPLE));
    crate::verif_model::set_order(0);
    let (x, p): (i64, i64) = (kani::any(), kani::any());
    let c = tup(crate::vv![Variable::Int(x), arr_t(Type::Never, crate::vv![])]);
    let d = tup(crate::vv![Variable::Int(p), arr_t(Type::Int, crate::vv![])]);
    sym_pair(&c, &d);
    assert!(c == c && d == d);
    kani::cover!(x == p);
}
#[kani::proof]
#[kani::unwind(5)]
#[kani::stub(alloc::fmt::format, crate::verif_common::stub_format)]
pub fn symmetry_across_kinds() {
    let x: i64 = kani::any();
    let a = arr_t(Type::Any, crate::vv![Variable::Int(x)]);
    let c = tup(crate::vv![Variable::Int(x)]);
    sym_pair(&a, &c);
    kani::cover!(true);
}
