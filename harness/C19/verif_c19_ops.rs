//@ inject: src/instruction/bin_op.rs
//@ modname: verif_c19_ops
//@ property: C19
//@ tier: quick

//! C19 through the operators: `==` / `!=` at run time and folded, and the value arms of `match`.
use super::*;
use crate::instruction::local_variable::LocalVariables;
use crate::instruction::{Exec, ExecStop, Recreate};
use crate::variable::Array;
use crate::verif_common::*;
use crate::verif_model::Arc;

fn arr_t(t: Type, elems: Vec<Variable>) -> Variable {
    Variable::Array(Arc::new(Array::new_with_type(t, elems.into())))
}
fn declare() {
    use crate::instruction::verif_gate::*;
    allow_binops(b(BinOperator::Equal) | b(BinOperator::NotEqual));
    allow_unops(0);
    allow_mask((1 << K_VARIABLE) | (1 << K_BINOPERATION));
    // only ints and arrays are compared here
    crate::variable::verif_valgate::allow_vals(1 << crate::variable::verif_valgate::V_ARRAY);
}
fn run(op: BinOperator, a: Variable, b: Variable) -> Option<bool> {
    declare();
    let mut interp = Interpreter::without_stdlib();
    let ins = BinOperation { lhs: Instruction::Variable(a), rhs: Instruction::Variable(b), op };
    match ins.exec(&mut interp) {
        Ok(Variable::Bool(x)) => Some(x),
        _ => None,
    }
}
fn fold(op: BinOperator, a: Variable, b: Variable) -> Option<bool> {
    declare();
    let interp = Interpreter::without_stdlib();
    let mut lv = LocalVariables::new(&interp);
    let ins = BinOperation { lhs: Instruction::Variable(a), rhs: Instruction::Variable(b), op };
    let r = match ins.recreate(&mut lv) {
        Ok(Instruction::Variable(Variable::Bool(x))) => Some(x),
        _ => None,
    };
    std::mem::forget(lv);
    r
}

#[cfg(feature = "verif_experimental")] // operands wrapped in Instruction::Variable lose their kind: `==` walks every arm; did not finish in 400 s
#[kani::proof]
#[kani::unwind(4)]
#[kani::stub(alloc::fmt::format, crate::verif_common::stub_format)]
pub fn eq_ne_operators_run_time() {
    crate::verif_model::set_order(0);
    let (x, p): (i64, i64) = (kani::any(), kani::any());
    let mk_a = || arr_t(Type::Int | Type::Float, crate::vv![Variable::Int(x)]);
    let mk_b = || arr_t(Type::Int, crate::vv![Variable::Int(p)]);
    assert!(run(BinOperator::Equal, mk_a(), mk_b()) == Some(x == p));
    assert!(run(BinOperator::NotEqual, mk_a(), mk_b()) == Some(x != p));
    // any-typed / differently typed operands of different kinds
    assert!(run(BinOperator::Equal, Variable::Int(x), arr_t(Type::Any, crate::vv![Variable::Int(x)])) == Some(false));
    kani::cover!(x == p);
    kani::cover!(x != p);
}
#[cfg(feature = "verif_experimental")] // operands wrapped in Instruction::Variable lose their kind: `==` walks every arm; did not finish in 400 s
#[kani::proof]
#[kani::unwind(4)]
#[kani::stub(alloc::fmt::format, crate::verif_common::stub_format)]
pub fn eq_ne_operators_folded() {
    crate::verif_model::set_order(0);
    let (x, p): (i64, i64) = (kani::any(), kani::any());
    let mk_a = || arr_t(Type::Int | Type::Float, crate::vv![Variable::Int(x)]);
    let mk_b = || arr_t(Type::Int, crate::vv![Variable::Int(p)]);
    assert!(fold(BinOperator::Equal, mk_a(), mk_b()) == Some(x == p));
    assert!(fold(BinOperator::NotEqual, mk_a(), mk_b()) == Some(x != p));
    kani::cover!(x == p);
}
