//@ inject: src/variable.rs
//@ modname: verif_c05
//@ property: C05
//@ tier: quick

//! C05 - outcomes do not depend on the iteration order of unions (HashSet) and struct types
//! (HashMap).  Every fold over union members, the relation `matches`, `concat`/`conjoin`, the
//! default value `of_type` and `Hash` are evaluated on the same (structurally equal) types under
//! different iteration orders - identity, reversed, rotated, and members inserted in the opposite
//! order - and must agree (types up to mutual `matches`, because only the *printed* order may vary).
use super::*;
use crate::verif_common::*;
use crate::verif_model::{set_order, Arc};
use std::hash::{Hash, Hasher};

fn equiv(a: &Type, b: &Type) -> bool {
    a.matches(b) && b.matches(a)
}
fn opt_equiv(a: &Option<Type>, b: &Option<Type>) -> bool {
    match (a, b) {
        (None, None) => true,
        (Some(x), Some(y)) => equiv(x, y),
        _ => false,
    }
}
fn slice_equiv(a: &Option<Arc<[Type]>>, b: &Option<Arc<[Type]>>) -> bool {
    match (a, b) {
        (None, None) => true,
        (Some(x), Some(y)) => {
            if x.len() != y.len() {
                return false;
            }
            let mut i = 0;
            while i < x.len() {
                if !equiv(&x[i], &y[i]) {
                    return false;
                }
                i += 1;
            }
            true
        }
        _ => false,
    }
}

/// the i-th variant of union type t: different iteration policies / insertion order
fn variant(t: Ty, i: u8) -> Type {
    match i {
        0 => { set_order(0); real(t) }
        1 => { set_order(1); real(t) }
        2 => { set_order(2); real(t) }
        3 => { set_order(0); real_rev(t) }
        _ => { set_order(3); real_rev(t) }
    }
}

macro_rules! fold_order {
    ($name:ident, $f:expr, $same:expr, [$($t:expr),*]) => {
        #[kani::proof]
        #[kani::unwind(8)]
        #[kani::stub(alloc::fmt::format, crate::verif_common::stub_format)]
        pub fn $name() {
            $(
                {
                    let base = ($f)(&variant($t, 0));
                    let mut i = 1u8;
                    while i < 5 {
                        let other = ($f)(&variant($t, i));
                        assert!(($same)(&base, &other));
                        i += 1;
                    }
                }
            )*
            set_order(255);
            kani::cover!(true);
        }
    };
}
fn same_bool(a: &bool, b: &bool) -> bool { a == b }
fn same_usize(a: &Option<usize>, b: &Option<usize>) -> bool { a == b }

fold_order!(fold_order_index_result_a, |t: &Type| t.index_result(), opt_equiv, [T_U_ARRS, T_U_INT_ARR_INT]);
fold_order!(fold_order_index_result_b, |t: &Type| t.index_result(), opt_equiv, [T_U_FLOAT_ARRANY_ARRINT, T_U_ARR_MUT]);
fold_order!(fold_order_element_type_a, |t: &Type| t.element_type(), opt_equiv, [T_U_ARRS, T_U_INT_ARR_INT]);
fold_order!(fold_order_element_type_b, |t: &Type| t.element_type(), opt_equiv, [T_U_FLOAT_ARRANY_ARRINT, T_U_ARR_MUT]);
fold_order!(fold_order_mut_element_type, |t: &Type| t.mut_element_type(), opt_equiv, [T_U_MUTS, T_U_ARR_MUT, T_U_MUT_INT_MUT_U, T_U_INT_FLOAT]);
fold_order!(fold_order_return_type, |t: &Type| t.return_type(), opt_equiv, [T_U_FUNS, T_U_INT_FLOAT]);
fold_order!(fold_order_params, |t: &Type| t.params(), slice_equiv, [T_U_FUNS, T_U_INT_FLOAT]);
fold_order!(fold_order_iter_element, |t: &Type| t.iter_element(), opt_equiv, [T_U_FUNS, T_ITER_INT]);
fold_order!(fold_order_tuple_len, |t: &Type| t.tuple_len(), same_usize, [T_U_TUPS, T_U_INT_FLOAT]);
fold_order!(fold_order_min_tuple_len, |t: &Type| t.min_tuple_len(), same_usize, [T_U_TUPS, T_U_INT_FLOAT]);
fold_order!(fold_order_tuple_element_at, |t: &Type| t.tuple_element_at(1), opt_equiv, [T_U_TUPS]);
fold_order!(fold_order_flatten_tuple, |t: &Type| t.clone().flatten_tuple(), slice_equiv, [T_U_TUPS, T_U_INT_FLOAT]);
fold_order!(fold_order_field_type, |t: &Type| t.field_type("a"), opt_equiv, [T_U_STRUCTS, T_ST_AB]);
fold_order!(fold_order_has_field, |t: &Type| t.has_field("b"), same_bool, [T_U_STRUCTS, T_ST_AB]);
fn predicates(t: &Type) -> u8 {
    (t.is_function() as u8) | ((t.is_tuple() as u8) << 1) | ((t.is_mut() as u8) << 2) | ((t.can_be_indexed() as u8) << 3) | ((t.is_struct() as u8) << 4) | ((t.is_iterator() as u8) << 5)
}
fn same_u8(a: &u8, b: &u8) -> bool { a == b }
/// without `is_struct` / `is_iterator`: these compare with a `lazy_static` type, whose tags CBMC does
/// not resolve; with a union of functions / structs on the left that walk does not finish in 600 s
fn predicates_lite(t: &Type) -> u8 {
    (t.is_function() as u8) | ((t.is_tuple() as u8) << 1) | ((t.is_mut() as u8) << 2) | ((t.can_be_indexed() as u8) << 3)
}
fold_order!(fold_order_predicates_a1, predicates_lite, same_u8, [T_U_FUNS]);
fold_order!(fold_order_predicates_a2, predicates, same_u8, [T_U_TUPS]);
fold_order!(fold_order_predicates_b, predicates, same_u8, [T_U_MUTS, T_U_ARRS]);
fold_order!(fold_order_predicates_c, predicates_lite, same_u8, [T_U_STRUCTS]);
fold_order!(fold_order_predicates_d, predicates, same_u8, [T_U_ARR_MUT, T_U_INT_ARR_INT]);

/// a union of tuples with three different lengths: the minimum does not depend on the order
fn min_len_three(p: u8) {
    set_order(p);
    let t = Type::Tuple(crate::vv![Type::Int, Type::Int, Type::Int].into()) | real(T_TUP1_INT) | real(T_TUP_INT_INT);
    assert!(t.min_tuple_len() == Some(1));
    assert!(t.tuple_len().is_none());
}
#[kani::proof]
#[kani::unwind(8)]
#[kani::stub(alloc::fmt::format, crate::verif_common::stub_format)]
pub fn fold_order_min_tuple_len_three_a() { min_len_three(0); min_len_three(1); min_len_three(2); set_order(255); kani::cover!(true); }
#[kani::proof]
#[kani::unwind(8)]
#[kani::stub(alloc::fmt::format, crate::verif_common::stub_format)]
pub fn fold_order_min_tuple_len_three_b() { min_len_three(3); min_len_three(4); min_len_three(5); set_order(255); kani::cover!(true); }

/// the relation itself and the lattice operations between two structurally equal types iterated
/// in independent orders
fn equal_across_orders(t: Ty) {
    let a = variant(t, 0);
    let mut i = 1u8;
    while i < 5 {
        let b = variant(t, i);
        assert!(a == b && b == a); // structurally equal types always compare equal
        assert!(a.matches(&b) && b.matches(&a));
        // and so do `mut` cells of them (invariance is decided by ==)
        assert!(Type::Mut(Arc::new(a.clone())).matches(&Type::Mut(Arc::new(b.clone()))));
        i += 1;
    }
    // concat / conjoin of equal types are that type again
    let b = variant(t, 3);
    assert!(equiv(&a.clone().concat(b.clone()), &a));
    assert!(equiv(&a.conjoin(&b), &a));
}
macro_rules! equal_harness {
    ($name:ident, $($t:expr),*) => {
        #[kani::proof]
        #[kani::unwind(8)]
        #[kani::stub(alloc::fmt::format, crate::verif_common::stub_format)]
        pub fn $name() { $( equal_across_orders($t); )* set_order(255); kani::cover!(true); }
    };
}
equal_harness!(equal_types_across_orders_a1, T_U_INT_FLOAT_STR);
equal_harness!(equal_types_across_orders_a2, T_U_INT_ARR_INT);
equal_harness!(equal_types_across_orders_b1, T_U_ARRS);
equal_harness!(equal_types_across_orders_b2, T_ARR_U_INT_FLOAT);
equal_harness!(equal_types_across_orders_c1, T_U_STRUCTS);
equal_harness!(equal_types_across_orders_c2, T_ST_AB);
equal_harness!(equal_types_across_orders_d1, T_U_FUNS);
equal_harness!(equal_types_across_orders_d2, T_U_MUTS);
#[cfg(feature = "verif_thorough")]
equal_harness!(equal_types_across_orders_e1, T_U_TUPS);
#[cfg(feature = "verif_thorough")]
equal_harness!(equal_types_across_orders_e2, T_U_ARR_MUT);

/// the meet of two DIFFERENT unions that share more than one alternative does not depend on the order
/// either union is iterated in (`int|float` with `int|float|string`, `int|[int]` with `int|float|string`)
fn conjoin_orders(a: Ty, b: Ty) {
    let base = variant(a, 0).conjoin(&variant(b, 0));
    // reversed iteration (policy 1) and reversed insertion (variant 3); all five variants took 215 s
    let mut i = 1u8;
    while i < 5 {
        let other = variant(a, i).conjoin(&variant(b, i));
        assert!(equiv(&base, &other));
        let swapped = variant(b, i).conjoin(&variant(a, i));
        assert!(equiv(&base, &swapped));
        i += 2;
    }
}
#[kani::proof]
#[kani::unwind(10)]
#[kani::stub(alloc::fmt::format, crate::verif_common::stub_format)]
pub fn conjoin_of_overlapping_unions_order_free() {
    conjoin_orders(T_U_INT_FLOAT, T_U_INT_FLOAT_STR);
    set_order(255);
    kani::cover!(true);
}
#[cfg(feature = "verif_thorough")]
#[kani::proof]
#[kani::unwind(10)]
#[kani::stub(alloc::fmt::format, crate::verif_common::stub_format)]
pub fn conjoin_of_overlapping_unions_order_free_b() {
    conjoin_orders(T_U_INT_ARR_INT, T_U_INT_FLOAT_STR);
    set_order(255);
    kani::cover!(true);
}

/// Hash is consistent with Eq (the container model hides the hasher, so this is checked directly,
/// with an order-sensitive reference hasher)
struct Fnv(u64);
impl Hasher for Fnv {
    fn finish(&self) -> u64 { self.0 }
    fn write(&mut self, bytes: &[u8]) {
        let mut i = 0;
        while i < bytes.len() {
            self.0 = (self.0 ^ bytes[i] as u64).wrapping_mul(0x100000001b3);
            i += 1;
        }
    }
}
fn h(t: &Type) -> u64 {
    let mut s = Fnv(0xcbf29ce484222325);
    t.hash(&mut s);
    s.finish()
}
fn hash_eq(t: Ty) {
    let a = variant(t, 0);
    let ha = h(&a);
    let mut i = 1u8;
    while i < 5 {
        let b = variant(t, i);
        assert!(a == b);
        assert!(h(&b) == ha);
        i += 1;
    }
}
macro_rules! hash_harness {
    ($name:ident, $($t:expr),*) => {
        #[kani::proof]
        #[kani::unwind(10)]
        #[kani::stub(alloc::fmt::format, crate::verif_common::stub_format)]
        pub fn $name() { $( hash_eq($t); )* set_order(255); kani::cover!(true); }
    };
}
hash_harness!(hash_consistent_with_eq_a, T_U_INT_FLOAT_STR, T_ST_AB);
hash_harness!(hash_consistent_with_eq_b, T_U_STRUCTS, T_U_INT_ARR_INT);
hash_harness!(hash_consistent_with_eq_c, T_ST_AB_ANY, T_ARR_U_INT_FLOAT);
#[cfg(feature = "verif_thorough")]
hash_harness!(hash_consistent_with_eq_d, T_U_TUPS, T_U_FUNS);

/// the default value of a type (observable as the payload of an exhausted iterator) does not
/// depend on the iteration order
#[kani::proof]
#[kani::unwind(8)]
#[kani::stub(alloc::fmt::format, crate::verif_common::stub_format)]
pub fn of_type_order_free() {
    const TS: [Ty; 4] = [T_U_INT_FLOAT, T_U_INT_STR, T_U_INT_ARR_INT, T_U_TUPS];
    let mut k = 0;
    while k < TS.len() {
        let a = Variable::of_type(&variant(TS[k], 0)).unwrap();
        let mut i = 1u8;
        while i < 5 {
            let b = Variable::of_type(&variant(TS[k], i)).unwrap();
            assert!(a == b);
            i += 1;
        }
        k += 1;
    }
    set_order(255);
    kani::cover!(true);
}
