//@ inject: src/instruction/mut.rs
//@ modname: verif_c13_mut
//@ property: C13
//@ tier: quick

//! C13 (fresh cell per evaluation): every evaluation of a `mut` expression - before and after the
//! constant-folding pass, whether its initialiser is a literal or a captured constant - yields a
//! new cell of the declared type holding the initial value.
use super::*;
use crate::instruction::local_variable::{LocalVariable, LocalVariables};
use crate::instruction::{Exec, ExecStop, Recreate};
use crate::variable::{Type, Variable};
use crate::verif_common::*;
use crate::verif_model::Arc;

fn cell_of(r: Result<Variable, ExecStop>) -> Arc<variable::Mut> {
    match r {
        Ok(Variable::Mut(c)) => c,
        _ => panic!("`mut e` did not evaluate to a cell"),
    }
}

fn declare() {
    use crate::instruction::verif_gate::*;
    allow_binops(0);
    allow_unops(0);
    allow_mask((1 << K_VARIABLE) | (1 << K_MUT));
}
fn check_fresh(ins: &Instruction, interp: &mut Interpreter, x: i64) {
    declare();
    let c1 = cell_of(ins.exec(interp));
    let c2 = cell_of(ins.exec(interp));
    assert!(!Arc::ptr_eq(&c1, &c2));
    assert!(cell_int(&c1) == Some(x) && cell_int(&c2) == Some(x));
    assert!(matches!(c1.var_type, Type::Int) && matches!(c2.var_type, Type::Int));
    // a write to one is not seen through the other
    *c1.variable.write().unwrap() = Variable::Int(x.wrapping_add(1));
    assert!(cell_int(&c2) == Some(x));
}

#[kani::proof]
#[kani::unwind(4)]
#[kani::stub(alloc::fmt::format, crate::verif_common::stub_format)]
pub fn mut_fresh_literal_init() {
    let x: i64 = kani::any();
    let ins: Instruction = Mut {
        var_type: Type::Int,
        instruction: InstructionWithStr { instruction: Instruction::Variable(Variable::Int(x)), str: "c".into() },
    }
    .into();
    let mut interp = Interpreter::without_stdlib();
    check_fresh(&ins, &mut interp, x);
    // after the folding pass it is still an expression that allocates
    let mut lv = LocalVariables::new(&interp);
    let folded = match ins.recreate(&mut lv) {
        Ok(i) => i,
        Err(_) => panic!("folding `mut c` failed"),
    };
    std::mem::forget(lv);
    assert!(!matches!(folded, Instruction::Variable(_)));
    let mut interp2 = Interpreter::without_stdlib();
    check_fresh(&folded, &mut interp2, x);
    kani::cover!(true);
}

/// initialiser = a name the folding pass resolves to a captured constant (closure creation path)
#[kani::proof]
#[kani::unwind(4)]
#[kani::stub(alloc::fmt::format, crate::verif_common::stub_format)]
pub fn mut_fresh_captured_init() {
    let x: i64 = kani::any();
    let ins: Instruction = Mut {
        var_type: Type::Int,
        instruction: InstructionWithStr { instruction: local("v", Type::Int), str: "v".into() },
    }
    .into();
    declare();
    let interp = Interpreter::without_stdlib();
    let mut lv = LocalVariables::new(&interp);
    lv.insert("v".into(), LocalVariable::Variable(Variable::Int(x)));
    let folded = match ins.recreate(&mut lv) {
        Ok(i) => i,
        Err(_) => panic!("folding `mut v` failed"),
    };
    std::mem::forget(lv);
    assert!(!matches!(folded, Instruction::Variable(_)));
    let mut interp2 = Interpreter::without_stdlib();
    check_fresh(&folded, &mut interp2, x);
    kani::cover!(true);
}
