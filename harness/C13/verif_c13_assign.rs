//@ inject: src/instruction/bin_op.rs
//@ modname: verif_c13_assign
//@ property: C13
//@ tier: quick

//! C13 (aliasing, typed content): copies of a cell alias it; an accepted assignment never leaves a
//! value outside the declared content type in the cell.
use super::*;
use crate::instruction::prefix_op::indirection;
use crate::instruction::{Exec, ExecStop};
use crate::verif_common::*;
use crate::verif_model::{Arc, HashMap};

fn unstop(r: Result<Variable, ExecStop>) -> Result<Variable, ExecError> {
    match r {
        Ok(v) => Ok(v),
        Err(ExecStop::Error(e)) => Err(e),
        Err(_) => panic!("control signal escaped an assignment"),
    }
}
fn assign_through(cell: &Variable, op: BinOperator, v: Variable) -> Result<Variable, ExecError> {
    let mut interp = Interpreter::without_stdlib();
    let ins = BinOperation { lhs: Instruction::Variable(cell.clone()), rhs: Instruction::Variable(v), op };
    unstop(ins.exec(&mut interp))
}
fn read_through(cell: Variable) -> Option<i64> {
    as_int(&indirection::exec(cell))
}

/// one cell reachable as a binding, as an array element, as a tuple element and as a struct field
#[kani::proof]
#[kani::unwind(5)]
#[kani::stub(alloc::fmt::format, crate::verif_common::stub_format)]
pub fn alias_through_containers() {
    let (a, b, c): (i64, i64, i64) = (kani::any(), kani::any(), kani::any());
    let cell = Variable::Mut(new_cell(Type::Int, Variable::Int(a)));
    let arr = Variable::from(crate::vv![cell.clone()]);
    let tup = Variable::Tuple(Arc::from(crate::vv![Variable::Int(0), cell.clone()]));
    let mut m: HashMap<Arc<str>, Variable> = HashMap::new();
    m.insert("f".into(), cell.clone());
    let st = Variable::Struct(Arc::new(m));
    // copies obtained back from the containers
    let from_arr = at::exec(arr, Variable::Int(0)).unwrap();
    let from_tup = match &tup { Variable::Tuple(xs) => xs[1].clone(), _ => unreachable!() };
    let from_st = match &st { Variable::Struct(vm) => vm.get("f").unwrap().clone(), _ => unreachable!() };
    // write through the array copy: `=` stores and yields the value
    let r = assign_through(&from_arr, BinOperator::Assign, Variable::Int(b));
    assert!(matches!(r, Ok(Variable::Int(x)) if x == b));
    assert!(read_through(cell.clone()) == Some(b));
    assert!(read_through(from_tup.clone()) == Some(b));
    assert!(read_through(from_st.clone()) == Some(b));
    // compound update through the struct copy, seen through all the others
    let r = assign_through(&from_st, BinOperator::AssignAdd, Variable::Int(c));
    assert!(matches!(r, Ok(Variable::Int(x)) if x == b.wrapping_add(c)));
    assert!(read_through(cell) == Some(b.wrapping_add(c)));
    assert!(read_through(from_arr) == Some(b.wrapping_add(c)));
    assert!(read_through(from_tup) == Some(b.wrapping_add(c)));
    kani::cover!(true);
}

/// a cell stored in another cell keeps its identity
#[kani::proof]
#[kani::unwind(5)]
#[kani::stub(alloc::fmt::format, crate::verif_common::stub_format)]
pub fn alias_cell_in_cell() {
    let (a, b): (i64, i64) = (kani::any(), kani::any());
    let inner = Variable::Mut(new_cell(Type::Int, Variable::Int(a)));
    let outer = Variable::Mut(new_cell(Type::Mut(Arc::new(Type::Int)), inner.clone()));
    let got = indirection::exec(outer);
    let r = assign_through(&got, BinOperator::AssignSubtract, Variable::Int(b));
    assert!(matches!(r, Ok(Variable::Int(x)) if x == a.wrapping_sub(b)));
    assert!(read_through(inner) == Some(a.wrapping_sub(b)));
    kani::cover!(true);
}

/// a compound update whose operator fails reports the documented error and leaves the cell (seen
/// through every alias) exactly as it was:  c /= 0 ; c %= 0 ; c <<= 64 ; c >>= -1 ; c **= -1
fn failing_update(op: BinOperator, rhs: i64) -> Option<ExecError> {
    crate::variable::verif_valgate::allow_vals(1 << crate::variable::verif_valgate::V_MUT);
    let a: i64 = kani::any();
    let cell = Variable::Mut(new_cell(Type::Int, Variable::Int(a)));
    let alias = cell.clone();
    let r = assign_through(&cell, op, Variable::Int(rhs));
    assert!(read_through(alias) == Some(a));
    assert!(read_through(cell) == Some(a));
    match r {
        Ok(_) => None,
        Err(e) => Some(e),
    }
}
macro_rules! failing_update_harness {
    ($name:ident, $op:expr, $rhs:expr, $err:pat) => {
        #[kani::proof]
        #[kani::unwind(5)]
        #[kani::stub(alloc::fmt::format, crate::verif_common::stub_format)]
        pub fn $name() {
            assert!(matches!(failing_update($op, $rhs), Some($err)));
            kani::cover!(true);
        }
    };
}
failing_update_harness!(failed_update_div_leaves_cell, BinOperator::AssignDivide, 0, ExecError::ZeroDivision);
failing_update_harness!(failed_update_mod_leaves_cell, BinOperator::AssignModulo, 0, ExecError::ZeroModulo);
failing_update_harness!(failed_update_shl_leaves_cell, BinOperator::AssignLShift, 64, ExecError::OverflowShift);
failing_update_harness!(failed_update_shr_leaves_cell, BinOperator::AssignRShift, -1, ExecError::OverflowShift);
failing_update_harness!(failed_update_pow_leaves_cell, BinOperator::AssignPow, -1, ExecError::NegativeExponent);

// ---- typed content ---------------------------------------------------------------------------
const ASSIGN_OPS: [BinOperator; 12] = [
    BinOperator::Assign, BinOperator::AssignAdd, BinOperator::AssignSubtract, BinOperator::AssignMultiply,
    BinOperator::AssignDivide, BinOperator::AssignModulo, BinOperator::AssignPow, BinOperator::AssignLShift,
    BinOperator::AssignRShift, BinOperator::AssignBitwiseAnd, BinOperator::AssignBitwiseOr, BinOperator::AssignXor,
];

/// one (declared cell type T, value type R) cell of the table for operator `op`: if the checker
/// accepts it, then for every member choice of T and R the update neither panics nor leaves a non-T
/// in the cell, and what it yields is a T
fn typed_cell(op: BinOperator, t: Ty, r: Ty, pow_guard: bool) -> bool {
    // arrays occur only in the array rows of the table
    {
        use crate::variable::verif_valgate::*;
        allow_vals((1 << V_MUT) | if desc(t).k == 10 || desc(r).k == 10 { 1 << V_ARRAY } else { 0 });
    }
    let cell_type = Type::Mut(Arc::new(real(t)));
    if !can_be_used(&cell_type, &real(r), op) {
        return false;
    }
    let mut ko = 0;
    while ko < n_vals(t) {
        let mut kv = 0;
        while kv < n_vals(r) {
            let old = val(t, ko);
            let v = val(r, kv);
            if pow_guard {
                if let Variable::Int(e) = &v { kani::assume(*e < 3); }
            }
            let cell = new_cell(real(t), old);
            let res = assign_through(&Variable::Mut(cell.clone()), op, v);
            let content = cell.variable.read().unwrap().clone();
            assert!(in_ty(&content, t));
            if let Ok(y) = &res {
                assert!(in_ty(y, t));
            }
            kv += 1;
        }
        ko += 1;
    }
    true
}
/// One harness per (operator, declared cell type, value type) row: a failure names the row.
macro_rules! typed_row {
    ($(#[$m:meta])* $name:ident, $opidx:expr, $t:expr, $r:expr) => {
        $(#[$m])*
        #[kani::proof]
        #[kani::unwind(5)]
        #[kani::stub(alloc::fmt::format, crate::verif_common::stub_format)]
        pub fn $name() {
            crate::verif_model::set_order(0);
            typed_cell(ASSIGN_OPS[$opidx], $t, $r, $opidx == 6);
            kani::cover!(true);
        }
    };
}
// `=`: every row of the table
typed_row!(typed_content_assign_int, 0, T_INT, T_INT);
typed_row!(typed_content_assign_float_into_int, 0, T_INT, T_FLOAT);
typed_row!(typed_content_assign_any, 0, T_ANY, T_INT);
typed_row!(typed_content_assign_union_cell_int, 0, T_U_INT_FLOAT, T_INT);
typed_row!(typed_content_assign_union_cell_float, 0, T_U_INT_FLOAT, T_FLOAT);
typed_row!(typed_content_assign_union_into_int, 0, T_INT, T_U_INT_FLOAT);
typed_row!(typed_content_assign_array, 0, T_ARR_INT, T_ARR_INT);
typed_row!(typed_content_assign_array_of_floats_into_ints, 0, T_ARR_INT, T_ARR_FLOAT);
// compound operators: did not finish in 700 s even one row at a time (no tier enables them); that a compound
// update stores kernel(old, v) and leaves the cell unchanged on error is decided by C08's t_assign_* tables
typed_row!(#[cfg(feature = "verif_experimental")] typed_content_add_int, 1, T_INT, T_INT);
typed_row!(#[cfg(feature = "verif_experimental")] typed_content_add_float, 1, T_FLOAT, T_FLOAT);
typed_row!(#[cfg(feature = "verif_experimental")] typed_content_add_union_cell, 1, T_U_INT_FLOAT, T_INT);
typed_row!(#[cfg(feature = "verif_experimental")] typed_content_sub_int, 2, T_INT, T_INT);
typed_row!(#[cfg(feature = "verif_experimental")] typed_content_sub_union_cell, 2, T_U_INT_FLOAT, T_FLOAT);
typed_row!(#[cfg(feature = "verif_experimental")] typed_content_shl_int, 7, T_INT, T_INT);
typed_row!(#[cfg(feature = "verif_experimental")] typed_content_and_int, 9, T_INT, T_INT);
typed_row!(#[cfg(feature = "verif_experimental")] typed_content_and_bool, 9, T_BOOL, T_BOOL);
typed_row!(#[cfg(feature = "verif_experimental")] typed_content_xor_mixed_rejected, 11, T_INT, T_BOOL);
typed_row!(#[cfg(feature = "verif_experimental")] typed_content_mul_int, 3, T_INT, T_INT);
typed_row!(#[cfg(feature = "verif_experimental")] typed_content_div_int, 4, T_INT, T_INT);
typed_row!(#[cfg(feature = "verif_experimental")] typed_content_mod_int, 5, T_INT, T_INT);
typed_row!(#[cfg(feature = "verif_experimental")] typed_content_pow_int, 6, T_INT, T_INT);
typed_row!(#[cfg(feature = "verif_experimental")] typed_content_shr_int, 8, T_INT, T_INT);
typed_row!(#[cfg(feature = "verif_experimental")] typed_content_or_int, 10, T_INT, T_INT);
typed_row!(#[cfg(feature = "verif_experimental")] typed_content_add_array, 1, T_ARR_INT, T_ARR_INT);

/// unions of cell types / of a cell and a non-cell as assignment target: whatever the checker
/// answers, (1) the answer does not depend on the order the union is iterated in and (2) if it
/// accepts, storing is sound for *every* member cell type.
fn union_target(target: Ty, r: Ty, op: BinOperator) {
    let (m1, m2) = (desc(target).a, desc(target).b);
    // the same union built in both insertion orders and iterated in both directions
    crate::verif_model::set_order(0);
    let v1 = can_be_used(&real(target), &real(r), op);
    crate::verif_model::set_order(1);
    let v2 = can_be_used(&real(target), &real(r), op);
    crate::verif_model::set_order(0);
    let v3 = can_be_used(&real_rev(target), &real(r), op);
    assert!(v1 == v2 && v1 == v3);
    if v1 {
        // sound only if every member is a cell whose content type admits the stored value
        let stored = real(r);
        let ok = |m: Ty| desc(m).k == 11 && stored.matches(&real(desc(m).a));
        assert!(ok(m1) && ok(m2));
    }
}
macro_rules! union_target_harness {
    ($(#[$m:meta])* $name:ident, $target:expr, $r:expr, $op:expr) => {
        $(#[$m])*
        #[kani::proof]
        #[kani::unwind(6)]
        #[kani::stub(alloc::fmt::format, crate::verif_common::stub_format)]
        pub fn $name() {
            union_target($target, $r, $op);
            crate::verif_model::set_order(255);
            kani::cover!(true);
        }
    };
}
union_target_harness!(union_target_two_cells_assign_int, T_U_MUTS, T_INT, BinOperator::Assign);
union_target_harness!(union_target_two_cells_assign_float, T_U_MUTS, T_FLOAT, BinOperator::Assign);
// `+=` on a union of two cell types: did not finish in 700 s (no tier enables it)
union_target_harness!(#[cfg(feature = "verif_experimental")] union_target_two_cells_add_int, T_U_MUTS, T_INT, BinOperator::AssignAdd);
union_target_harness!(union_target_array_or_cell_assign_int, T_U_ARR_MUT, T_INT, BinOperator::Assign);
union_target_harness!(union_target_array_or_cell_assign_float, T_U_ARR_MUT, T_FLOAT, BinOperator::Assign);
union_target_harness!(union_target_array_or_cell_add_int, T_U_ARR_MUT, T_INT, BinOperator::AssignAdd);
union_target_harness!(union_target_cell_and_wider_cell_assign_int, T_U_MUT_INT_MUT_U, T_INT, BinOperator::Assign);
union_target_harness!(union_target_cell_and_wider_cell_assign_float, T_U_MUT_INT_MUT_U, T_FLOAT, BinOperator::Assign);
// `+=` on a union of two cell types: did not finish in 700 s (no tier enables it)
union_target_harness!(#[cfg(feature = "verif_experimental")] union_target_cell_and_wider_cell_add_int, T_U_MUT_INT_MUT_U, T_INT, BinOperator::AssignAdd);

// ---- the static rule of compound assignment --------------------------------------------------
/// `c op= v` stores `*c op v` into c.  Whenever the checker accepts `mut T op= R`, the static type it
/// computes for `T op R` (the plain operator on the same operand types - what C01 shows the stored
/// value belongs to) must itself be storable in the cell, i.e. match T.  No expectation is
/// hard-coded: two parts of the checker are compared with each other, for every pair of the grid
///   T in {int, [int], string, int|float}  x  R in {int, float, [float]}
/// (the 8 x 7 grid first tried needs > 11 min of CBMC per operator).
fn static_rule(assign_op: BinOperator, plain_op: BinOperator) {
    const TS: [Ty; 4] = [T_INT, T_ARR_INT, T_STR, T_U_INT_FLOAT];
    const RS: [Ty; 3] = [T_INT, T_FLOAT, T_ARR_FLOAT];
    crate::verif_model::set_order(0);
    let mut accepted = 0;
    let mut i = 0;
    while i < TS.len() {
        let mut j = 0;
        while j < RS.len() {
            let (t, r) = (real(TS[i]), real(RS[j]));
            if can_be_used(&Type::Mut(Arc::new(t.clone())), &r, assign_op) {
                accepted += 1;
                // the plain operator is admissible on the same operands ...
                assert!(can_be_used(&t, &r, plain_op));
                // ... and what it yields may be stored back
                let result = BinOperation { lhs: local("a", t.clone()), rhs: local("b", r), op: plain_op }.return_type();
                assert!(result.matches(&t));
            }
            j += 1;
        }
        i += 1;
    }
    // `mut int op= int` is accepted for every operator: the rule is not vacuous
    assert!(accepted > 0);
}
macro_rules! static_rule_harness {
    ($name:ident, $a:expr, $p:expr) => {
        #[kani::proof]
        #[kani::unwind(10)]
        #[kani::stub(alloc::fmt::format, crate::verif_common::stub_format)]
        pub fn $name() {
            {
                use crate::instruction::verif_gate::*;
                allow_mask(1 << K_VARIABLE);
            }
            static_rule($a, $p);
            crate::verif_model::set_order(255);
            kani::cover!(true);
        }
    };
}
#[cfg(feature = "verif_experimental")] // 1500 s timeout even on a 4 x 3 grid (lazy_static operand types are not resolved by CBMC)
static_rule_harness!(compound_static_rule_add, BinOperator::AssignAdd, BinOperator::Add);
#[cfg(feature = "verif_experimental")] // 1500 s timeout even on a 4 x 3 grid (lazy_static operand types are not resolved by CBMC)
static_rule_harness!(compound_static_rule_sub, BinOperator::AssignSubtract, BinOperator::Subtract);
#[cfg(feature = "verif_experimental")] // 1500 s timeout even on a 4 x 3 grid (lazy_static operand types are not resolved by CBMC)
static_rule_harness!(compound_static_rule_mul, BinOperator::AssignMultiply, BinOperator::Multiply);
#[cfg(feature = "verif_experimental")] // 1500 s timeout even on a 4 x 3 grid (lazy_static operand types are not resolved by CBMC)
static_rule_harness!(compound_static_rule_div, BinOperator::AssignDivide, BinOperator::Divide);
#[cfg(feature = "verif_experimental")] // 1500 s timeout even on a 4 x 3 grid (lazy_static operand types are not resolved by CBMC)
static_rule_harness!(compound_static_rule_mod, BinOperator::AssignModulo, BinOperator::Modulo);
#[cfg(feature = "verif_experimental")] // 1500 s timeout even on a 4 x 3 grid (lazy_static operand types are not resolved by CBMC)
static_rule_harness!(compound_static_rule_pow, BinOperator::AssignPow, BinOperator::Pow);
#[cfg(feature = "verif_experimental")] // 1500 s timeout even on a 4 x 3 grid (lazy_static operand types are not resolved by CBMC)
static_rule_harness!(compound_static_rule_shl, BinOperator::AssignLShift, BinOperator::LShift);
#[cfg(feature = "verif_experimental")] // 1500 s timeout even on a 4 x 3 grid (lazy_static operand types are not resolved by CBMC)
static_rule_harness!(compound_static_rule_shr, BinOperator::AssignRShift, BinOperator::RShift);
#[cfg(feature = "verif_experimental")] // 1500 s timeout even on a 4 x 3 grid (lazy_static operand types are not resolved by CBMC)
static_rule_harness!(compound_static_rule_and, BinOperator::AssignBitwiseAnd, BinOperator::BitwiseAnd);
#[cfg(feature = "verif_experimental")] // 1500 s timeout even on a 4 x 3 grid (lazy_static operand types are not resolved by CBMC)
static_rule_harness!(compound_static_rule_or, BinOperator::AssignBitwiseOr, BinOperator::BitwiseOr);
#[cfg(feature = "verif_experimental")] // 1500 s timeout even on a 4 x 3 grid (lazy_static operand types are not resolved by CBMC)
static_rule_harness!(compound_static_rule_xor, BinOperator::AssignXor, BinOperator::Xor);

/// the same rule on single (T, R) pairs for `+=`, whose admissibility test does not go through a
/// `lazy_static` type: appending floats to a `mut [int]`, ints to a `mut [int]`, a float to a `mut int`
fn static_rule_pair(t: Ty, r: Ty) {
    crate::verif_model::set_order(0);
    let (tt, rr) = (real(t), real(r));
    if can_be_used(&Type::Mut(Arc::new(tt.clone())), &rr, BinOperator::AssignAdd) {
        assert!(can_be_used(&tt, &rr, BinOperator::Add));
        let result = BinOperation { lhs: local("a", tt.clone()), rhs: local("b", rr), op: BinOperator::Add }.return_type();
        assert!(result.matches(&tt));
    }
}
macro_rules! static_pair_harness {
    ($name:ident, $t:expr, $r:expr) => {
        #[kani::proof]
        #[kani::unwind(8)]
        #[kani::stub(alloc::fmt::format, crate::verif_common::stub_format)]
        pub fn $name() {
            {
                use crate::instruction::verif_gate::*;
                allow_mask(1 << K_VARIABLE);
            }
            static_rule_pair($t, $r);
            crate::verif_model::set_order(255);
            kani::cover!(true);
        }
    };
}
#[cfg(feature = "verif_experimental")] // > 15 min for a single pair
static_pair_harness!(add_assign_static_rule_floats_into_int_array, T_ARR_INT, T_ARR_FLOAT);
#[cfg(feature = "verif_experimental")] // > 15 min for a single pair
static_pair_harness!(add_assign_static_rule_ints_into_int_array, T_ARR_INT, T_ARR_INT);
#[cfg(feature = "verif_experimental")] // > 15 min for a single pair
static_pair_harness!(add_assign_static_rule_float_into_int, T_INT, T_FLOAT);
