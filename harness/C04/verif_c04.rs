//@ inject: src/instruction.rs
//@ modname: verif_c04
//@ property: C04
//@ tier: quick

//! C04 - constant folding and propagation are unobservable.  Twin pairs: the same construct with
//! its constants literal (tree F, folded by `recreate`) and hidden as `*cell` (tree R, never
//! folded); both executed, results and effects compared; a parse-time error from folding is accepted
//! only if the hidden twin fails with the same error.
//! (Per-operator folding of BinOperation / UnaryOperation with both or one constant operand is
//!  decided by the C08 table harnesses t_fold_*; short-circuit, branch pruning, array/tuple/struct
//!  construction and slice bounds by the *_folded harnesses of C07.  Both sets are part of this check.)
use super::*;
use crate::instruction::array_repeat::ArrayRepeat;
use crate::instruction::block::Block;
use crate::instruction::control_flow::IfElse;
use crate::instruction::local_variable::LocalVariables;
use crate::instruction::set::Set;
use crate::instruction::tuple_access::TupleAccess;
use crate::unary_operator::UnaryOperator;
use crate::verif_common::*;
use crate::verif_model::Arc;
use crate::BinOperator;

/// Declared shape, level by level (lib/patch.py `verif_gate`): the instruction kinds at nesting depth
/// 0, 1, 2 and >= 3 of the twin trees of a scenario (literal twin, its folded form, hidden-constant twin).
fn levels(l0: u32, l1: u32, l2: u32, l3: u32) {
    use crate::instruction::verif_gate::*;
    allow_binops(b(crate::BinOperator::Subtract) | b(crate::BinOperator::AssignAdd) | b(crate::BinOperator::AssignSubtract) | b(crate::BinOperator::LShift) | b(crate::BinOperator::RShift) | b(crate::BinOperator::Divide) | b(crate::BinOperator::Modulo));
    allow_unops(u(crate::unary_operator::UnaryOperator::Indirection));
    allow_mask(u32::MAX);
    crate::variable::verif_valgate::allow_vals(0);
    allow_at(0, l0, u64::MAX);
    allow_at(1, l1, u64::MAX);
    allow_at(2, l2, u64::MAX);
    allow_at(3, l3, u64::MAX);
}
use crate::instruction::verif_gate::{K_ARRAYREPEAT, K_BINOPERATION, K_BLOCK, K_IFELSE, K_SET, K_UNARYOPERATION, K_VARIABLE};
const V: u32 = 1 << K_VARIABLE;
const BO: u32 = 1 << K_BINOPERATION;
const UO: u32 = 1 << K_UNARYOPERATION;
const BL: u32 = 1 << K_BLOCK;
const IE: u32 = 1 << K_IFELSE;
const ST: u32 = 1 << K_SET;
const LV: u32 = 0; // `LocalVariable` (two payload fields) is dispatched inline and not gated
const AR: u32 = 1 << K_ARRAYREPEAT;
fn iws(i: Instruction) -> InstructionWithStr {
    InstructionWithStr { instruction: i, str: "e".into() }
}
fn lit(v: i64) -> Instruction {
    Instruction::Variable(Variable::Int(v))
}
/// the constant hidden from the optimizer: `*cell`
fn hid(v: i64) -> Instruction {
    UnaryOperation { instruction: Instruction::Variable(Variable::Mut(new_cell(Type::Int, Variable::Int(v)))), op: UnaryOperator::Indirection }.into()
}
fn run(i: &Instruction) -> Result<Variable, ExecStop> {
    let mut interp = Interpreter::without_stdlib();
    i.exec(&mut interp)
}
fn fold(i: &Instruction) -> Result<Instruction, ExecError> {
    let interp = Interpreter::without_stdlib();
    let mut lv = LocalVariables::new(&interp);
    let r = i.recreate(&mut lv);
    std::mem::forget(lv);
    r
}
fn same_int_result(a: &Result<Variable, ExecStop>, b: &Result<Variable, ExecStop>) -> bool {
    match (a, b) {
        (Ok(Variable::Int(x)), Ok(Variable::Int(y))) => x == y,
        (Ok(Variable::Void), Ok(Variable::Void)) => true,
        (Err(ExecStop::Error(e1)), Err(ExecStop::Error(e2))) => e1 == e2,
        _ => false,
    }
}
/// F folded-then-run must equal R run; a folding error must be R's run-time error
fn twin(f: &Instruction, r: &Instruction) {
    let rr = run(r);
    match fold(f) {
        Ok(t) => {
            let fr = run(&t);
            assert!(same_int_result(&fr, &rr));
        }
        Err(e) => assert!(matches!(&rr, Err(ExecStop::Error(e2)) if *e2 == e)),
    }
}

/// variable propagation through `x := c` into a later use, inside one block
fn set_then_use(c: i64, k: i64) -> (Instruction, Instruction) {
    let mk = |cst: Instruction| -> Instruction {
        let set: Instruction = Set { ident: "x".into(), instruction: iws(cst) }.into();
        let usage: Instruction = BinOperation { lhs: local("x", Type::Int), rhs: lit(k), op: BinOperator::Subtract }.into();
        Block { instructions: Arc::from(crate::vv![iws(set), iws(usage)]) }.into()
    };
    (mk(lit(c)), mk(hid(c)))
}
#[cfg(feature = "verif_experimental")] // 1500 s timeout / 14 GB
#[kani::proof]
#[kani::unwind(5)]
#[kani::stub(alloc::fmt::format, crate::verif_common::stub_format)]
pub fn propagate_set_into_use() {
    // { x := c ; x - k }: block > set | subtraction > constant | *cell | x > cell
    levels(BL | V, ST | BO | V, V | UO | LV, V);
    let (c, k): (i64, i64) = (kani::any(), kani::any());
    let (f, r) = set_then_use(c, k);
    twin(&f, &r);
    kani::cover!(true);
}

/// shadowing inside a nested block must not leak into the enclosing scope:
///   { x := c1 ; { x := c2 } ; x }
#[cfg(feature = "verif_experimental")] // 1500 s timeout / 14 GB
#[kani::proof]
#[kani::unwind(5)]
#[kani::stub(alloc::fmt::format, crate::verif_common::stub_format)]
pub fn propagate_respects_block_scope() {
    // { x := c1 ; { x := c2 } ; x }
    levels(BL | V, ST | BL | LV | V, V | UO | ST, V | UO);
    let (c1, c2): (i64, i64) = (kani::any(), kani::any());
    let mk = |a: Instruction, b: Instruction| -> Instruction {
        let outer_set: Instruction = Set { ident: "x".into(), instruction: iws(a) }.into();
        let inner_set: Instruction = Set { ident: "x".into(), instruction: iws(b) }.into();
        let inner: Instruction = Block { instructions: Arc::from(crate::vv![iws(inner_set)]) }.into();
        Block { instructions: Arc::from(crate::vv![iws(outer_set), iws(inner), iws(local("x", Type::Int))]) }.into()
    };
    let f = mk(lit(c1), lit(c2));
    let r = mk(hid(c1), hid(c2));
    twin(&f, &r);
    // and the value is the outer binding
    match fold(&f) {
        Ok(t) => assert!(matches!(run(&t), Ok(Variable::Int(v)) if v == c1)),
        Err(_) => panic!("folding failed"),
    }
    kani::cover!(true);
}

/// branch pruning with a constant condition keeps the value and the effects of the taken branch
#[cfg(feature = "verif_experimental")] // 1500 s timeout / 14 GB
#[kani::proof]
#[kani::unwind(5)]
#[kani::stub(alloc::fmt::format, crate::verif_common::stub_format)]
pub fn prune_constant_condition() {
    // if cond { acc += a } else { acc -= b }; a pruned branch moves one level up
    levels(IE | BO, V | UO | BO, V, 0);
    let (a, b): (i64, i64) = (kani::any(), kani::any());
    let c: bool = kani::any();
    let acc_f = new_cell(Type::Int, Variable::Int(0));
    let acc_r = new_cell(Type::Int, Variable::Int(0));
    let mk = |cond: Instruction, acc: &Arc<crate::variable::Mut>| -> Instruction {
        let t: Instruction = BinOperation { lhs: Instruction::Variable(Variable::Mut(acc.clone())), rhs: lit(a), op: BinOperator::AssignAdd }.into();
        let e: Instruction = BinOperation { lhs: Instruction::Variable(Variable::Mut(acc.clone())), rhs: lit(b), op: BinOperator::AssignSubtract }.into();
        IfElse { condition: iws(cond), if_true: iws(t), if_false: iws(e) }.into()
    };
    let hidden_cond: Instruction = UnaryOperation { instruction: Instruction::Variable(Variable::Mut(new_cell(Type::Bool, Variable::Bool(c)))), op: UnaryOperator::Indirection }.into();
    // the constant condition is enumerated concretely (a symbolic one would merge two tree shapes)
    let f = if c { mk(Instruction::Variable(Variable::Bool(true)), &acc_f) } else { mk(Instruction::Variable(Variable::Bool(false)), &acc_f) };
    let r = mk(hidden_cond, &acc_r);
    twin(&f, &r);
    assert!(cell_int(&acc_f) == cell_int(&acc_r));
    kani::cover!(c);
    kani::cover!(!c);
}

/// `[v; n]` with constant operands: a negative constant length may be reported at parse time, and
/// only then; otherwise same array
fn repeat_twin(n: i64) {
    levels(AR | V, V | UO, V, 0);
    let v: i64 = kani::any();
    let f: Instruction = ArrayRepeat { value: iws(lit(v)), len: iws(lit(n)) }.into();
    let r: Instruction = ArrayRepeat { value: iws(hid(v)), len: iws(hid(n)) }.into();
    let rr = run(&r);
    match fold(&f) {
        Ok(t) => match (run(&t), rr) {
            (Ok(Variable::Array(x)), Ok(Variable::Array(y))) => {
                assert!(x.len() == y.len() && x.len() as i64 == n);
                if n > 0 { assert!(matches!((&x[0], &y[0]), (Variable::Int(p), Variable::Int(q)) if p == q && *p == v)); }
            }
            (Err(ExecStop::Error(e1)), Err(ExecStop::Error(e2))) => assert!(e1 == e2),
            _ => panic!("folded and hidden-constant array repeat disagree"),
        },
        Err(e) => {
            assert!(n < 0 && matches!(e, ExecError::NegativeLength));
            assert!(matches!(rr, Err(ExecStop::Error(ExecError::NegativeLength))));
        }
    }
}
#[kani::proof]
#[kani::unwind(5)]
#[kani::stub(alloc::fmt::format, crate::verif_common::stub_format)]
pub fn array_repeat_constant_length_0() { repeat_twin(0); kani::cover!(true); }
#[kani::proof]
#[kani::unwind(5)]
#[kani::stub(alloc::fmt::format, crate::verif_common::stub_format)]
pub fn array_repeat_constant_length_2() { repeat_twin(2); kani::cover!(true); }
#[kani::proof]
#[kani::unwind(5)]
#[kani::stub(alloc::fmt::format, crate::verif_common::stub_format)]
pub fn array_repeat_constant_length_negative() { repeat_twin(-1); kani::cover!(true); }

/// constant on one side only must never be reported early unless it fails for every value:
///   x / 0, x % 0, x << 64 may be rejected at parse time;  0 / x, 63-bit shifts, x / 1 may not
fn early_twin(op: BinOperator, c: i64, right: bool) {
    levels(BO | V, V | UO, V, 0);
    let x: i64 = kani::any();
    let (fl, fr) = if right { (hid(x), lit(c)) } else { (lit(c), hid(x)) };
    let (rl, rr) = if right { (hid(x), hid(c)) } else { (hid(c), hid(x)) };
    let f: Instruction = BinOperation { lhs: fl, rhs: fr, op }.into();
    let r: Instruction = BinOperation { lhs: rl, rhs: rr, op }.into();
    twin(&f, &r);
}
macro_rules! early_harness {
    ($(#[$m:meta])* $name:ident, $op:expr, $c:expr, $right:expr) => {
        $(#[$m])*
        #[kani::proof]
        #[kani::unwind(4)]
        #[kani::stub(alloc::fmt::format, crate::verif_common::stub_format)]
        pub fn $name() { early_twin($op, $c, $right); kani::cover!(true); }
    };
}
early_harness!(early_errors_only_when_certain_shl63, BinOperator::LShift, 63, true);
early_harness!(early_errors_only_when_certain_shr63, BinOperator::RShift, 63, true);
early_harness!(early_errors_only_when_certain_shl64, BinOperator::LShift, 64, true);
early_harness!(early_errors_only_when_certain_div0, BinOperator::Divide, 0, true);
early_harness!(early_errors_only_when_certain_0mod, BinOperator::Modulo, 0, false);
early_harness!(#[cfg(feature = "verif_thorough")] early_errors_only_when_certain_0div, BinOperator::Divide, 0, false);
