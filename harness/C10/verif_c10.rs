//@ inject: src/variable.rs
//@ modname: verif_c10
//@ property: C10
//@ tier: quick

//! C10 - laws of the `matches` relation, of union (`|`, `|=`) and of the meet (`conjoin`), and
//! soundness for values.  Types are *built once per harness* with the repo's constructors from the
//! integer-coded universe of verif_common (concrete shapes); every union / struct is iterated in
//! the order chosen by the container model's policy, and each law is checked under several policies
//! (identity, reversed, alternating per instance).
use super::*;
use crate::verif_common::*;
use crate::verif_model::{set_order, Arc};

/// relation matrix over a list of universe indices
fn fill<const N: usize>(ids: &[Ty; N]) -> ([Type; N], [[bool; N]; N]) {
    let ts: [Type; N] = core::array::from_fn(|i| real(ids[i]));
    let mut r = [[false; N]; N];
    let mut i = 0;
    while i < N {
        let mut j = 0;
        while j < N {
            r[i][j] = ts[i].matches(&ts[j]);
            j += 1;
        }
        i += 1;
    }
    (ts, r)
}
fn check_preorder<const N: usize>(ids: &[Ty; N], r: &[[bool; N]; N]) {
    let mut i = 0;
    while i < N {
        assert!(r[i][i]); // reflexive
        let mut j = 0;
        while j < N {
            // `!` is least, `any` is greatest
            if ids[i] == T_NEVER { assert!(r[i][j]); }
            if ids[j] == T_ANY { assert!(r[i][j]); }
            if r[i][j] {
                let mut k = 0;
                while k < N {
                    if r[j][k] { assert!(r[i][k]); } // transitive
                    k += 1;
                }
            }
            j += 1;
        }
        i += 1;
    }
}

const S_SEQ: [Ty; 10] = [T_NEVER, T_INT, T_ANY, T_U_INT_FLOAT, T_U_INT_FLOAT_STR, T_ARR_INT, T_ARR_U_INT_FLOAT, T_U_ARRS, T_ARR_ANY, T_ARR_NEVER];
const S_PROD: [Ty; 10] = [T_TUP_INT_INT, T_TUP_ANY_INT, T_TUP_U_INT, T_U_TUPS, T_TUP1_INT, T_ST_A_INT, T_ST_AB, T_ST_A_U, T_U_STRUCTS, T_ST_AB_ANY];
const S_MIX: [Ty; 10] = [T_U_INT_ARR_INT, T_U_ARRS, T_ARR_ARR_INT, T_ITER_INT, T_TUP_BOOL_INT, T_ST_A_ANY, T_MUT_ARR_INT, T_U_MUT_INT_MUT_U, T_ARR_U_INT_STR, T_FUN_U_U];
const S_FUN: [Ty; 10] = [T_FUN_INT_FLOAT, T_FUN_ANY_INT, T_FUN0_INT, T_FUN_U_INT, T_FUN_INT_U, T_FUN_U_U, T_U_FUNS, T_MUT_INT, T_MUT_U_INT_FLOAT, T_U_MUTS];

macro_rules! preorder {
    ($name:ident, $set:expr, $policy:expr) => {
        #[kani::proof]
        #[kani::unwind(12)]
        #[kani::stub(alloc::fmt::format, crate::verif_common::stub_format)]
        pub fn $name() {
            set_order($policy);
            let (_ts, r) = fill(&$set);
            check_preorder(&$set, &r);
            kani::cover!(true);
        }
    };
}
preorder!(preorder_seq_o0, S_SEQ, 0);
preorder!(preorder_seq_o1, S_SEQ, 1);
preorder!(preorder_seq_alt, S_SEQ, 16 + 1);
preorder!(preorder_prod_o0, S_PROD, 0);
preorder!(preorder_prod_o1, S_PROD, 1);
preorder!(preorder_fun_o0, S_FUN, 0);
preorder!(preorder_fun_o1, S_FUN, 1);
// a fourth universe mixing the constructors (added in round three, thorough tier)
#[cfg(feature = "verif_thorough")]
preorder!(preorder_mix_o0, S_MIX, 0);

fn m(a: Ty, b: Ty) -> bool {
    real(a).matches(&real(b))
}
fn equiv(a: &Type, b: &Type) -> bool {
    a.matches(b) && b.matches(a)
}

/// variance of the type constructors, stated on explicit instances (A, B) with known A <= B / not
#[kani::proof]
#[kani::unwind(6)]
#[kani::stub(alloc::fmt::format, crate::verif_common::stub_format)]
pub fn variance_of_constructors() {
    set_order(0);
    // arrays covariant
    assert!(m(T_ARR_INT, T_ARR_U_INT_FLOAT) && !m(T_ARR_U_INT_FLOAT, T_ARR_INT));
    assert!(m(T_ARR_INT, T_ARR_ANY) && m(T_ARR_NEVER, T_ARR_INT) && !m(T_ARR_INT, T_ARR_FLOAT));
    assert!(m(T_ARR_ARR_INT, T_ARR_ANY));
    // tuples covariant componentwise, arity exact
    assert!(m(T_TUP_INT_INT, T_TUP_ANY_INT) && m(T_TUP_INT_INT, T_TUP_U_INT) && !m(T_TUP_U_INT, T_TUP_INT_INT));
    assert!(!m(T_TUP1_INT, T_TUP_INT_INT) && !m(T_TUP_INT_INT, T_TUP1_INT) && !m(T_TUP_INT_FLOAT, T_TUP_INT_INT));
    // structs: depth and width subtyping
    assert!(m(T_ST_A_INT, T_ST_A_ANY) && m(T_ST_A_INT, T_ST_A_U) && !m(T_ST_A_U, T_ST_A_INT));
    assert!(m(T_ST_AB, T_ST_A_INT) && !m(T_ST_A_INT, T_ST_AB) && m(T_ST_AB, T_ST_AB_ANY) && !m(T_ST_AB_ANY, T_ST_AB));
    // functions: parameters contravariant, result covariant
    assert!(m(T_FUN_U_INT, T_FUN_INT_U)); // (int|float)->int  <=  (int)->(int|float)
    assert!(!m(T_FUN_INT_U, T_FUN_U_INT));
    assert!(m(T_FUN_U_INT, T_FUN_U_U) && !m(T_FUN_U_U, T_FUN_U_INT)); // result covariant
    assert!(m(T_FUN_U_U, T_FUN_INT_U) && !m(T_FUN_INT_U, T_FUN_U_U)); // parameter contravariant
    assert!(!m(T_FUN0_INT, T_FUN_ANY_INT) && !m(T_FUN_ANY_INT, T_FUN0_INT)); // arity
    // mut cells invariant
    assert!(m(T_MUT_INT, T_MUT_INT) && !m(T_MUT_INT, T_MUT_U_INT_FLOAT) && !m(T_MUT_U_INT_FLOAT, T_MUT_INT));
    assert!(!m(T_MUT_INT, T_MUT_FLOAT) && !m(T_MUT_INT, T_MUT_U_INT_STR));
    assert!(m(T_MUT_INT, T_ANY) && m(T_MUT_INT, T_U_MUTS) && !m(T_U_MUTS, T_MUT_INT));
    kani::cover!(true);
}
/// the same under the reversed iteration order
#[kani::proof]
#[kani::unwind(6)]
#[kani::stub(alloc::fmt::format, crate::verif_common::stub_format)]
pub fn variance_of_constructors_rev() {
    set_order(1);
    assert!(m(T_ARR_INT, T_ARR_U_INT_FLOAT) && !m(T_ARR_U_INT_FLOAT, T_ARR_INT));
    assert!(m(T_TUP_INT_INT, T_TUP_U_INT) && !m(T_TUP_U_INT, T_TUP_INT_INT));
    assert!(m(T_ST_A_INT, T_ST_A_U) && !m(T_ST_A_U, T_ST_A_INT) && m(T_ST_AB, T_ST_A_INT) && !m(T_ST_A_INT, T_ST_AB));
    assert!(m(T_FUN_U_INT, T_FUN_INT_U) && !m(T_FUN_INT_U, T_FUN_U_INT));
    assert!(!m(T_MUT_INT, T_MUT_U_INT_FLOAT) && !m(T_MUT_U_INT_FLOAT, T_MUT_INT) && m(T_MUT_U_INT_FLOAT, T_MUT_U_INT_FLOAT));
    kani::cover!(true);
}

/// union: upper bound of its members (whatever the insertion order, also when a member is a
/// supertype of a later one), least such: A|B <= C  <=>  A <= C and B <= C; `|=` agrees with `|`
const S_JOIN_A: [Ty; 4] = [T_INT, T_ARR_INT, T_ARR_ANY, T_NEVER];
const S_JOIN_B: [Ty; 4] = [T_U_INT_FLOAT, T_FLOAT, T_ANY, T_ARR_INT];
macro_rules! union_laws {
    ($name:ident, $set:expr, $policy:expr, $i:expr) => {
        #[kani::proof]
        #[kani::unwind(8)]
        #[kani::stub(alloc::fmt::format, crate::verif_common::stub_format)]
        pub fn $name() {
            set_order($policy);
            let ts: [Type; 4] = core::array::from_fn(|i| real($set[i]));
            let i: usize = $i;
            let mut j = 0;
            while j < 4 {
                let u = ts[i].clone() | ts[j].clone();
                assert!(ts[i].matches(&u) && ts[j].matches(&u));
                let mut v = ts[i].clone();
                v |= ts[j].clone();
                assert!(equiv(&u, &v));
                let w = ts[j].clone() | ts[i].clone();
                assert!(equiv(&u, &w)); // commutative up to equivalence
                let mut k = 0;
                while k < 4 {
                    let both = ts[i].matches(&ts[k]) && ts[j].matches(&ts[k]);
                    assert!(u.matches(&ts[k]) == both);
                    k += 1;
                }
                j += 1;
            }
            // idempotent
            assert!(equiv(&(ts[i].clone() | ts[i].clone()), &ts[i]));
            kani::cover!(true);
        }
    };
}
union_laws!(union_laws_a0_o0, S_JOIN_A, 0, 0);
union_laws!(union_laws_a1_o0, S_JOIN_A, 0, 1);
union_laws!(union_laws_a2_o0, S_JOIN_A, 0, 2);
union_laws!(union_laws_a3_o0, S_JOIN_A, 0, 3);
union_laws!(union_laws_a0_o1, S_JOIN_A, 1, 0);
union_laws!(union_laws_a1_o1, S_JOIN_A, 1, 1);
union_laws!(union_laws_a2_o1, S_JOIN_A, 1, 2);
union_laws!(union_laws_a3_o1, S_JOIN_A, 1, 3);
union_laws!(union_laws_b0_o0, S_JOIN_B, 0, 0);
union_laws!(union_laws_b1_o0, S_JOIN_B, 0, 1);
union_laws!(union_laws_b2_o0, S_JOIN_B, 0, 2);
union_laws!(union_laws_b3_o0, S_JOIN_B, 0, 3);
union_laws!(union_laws_b0_o1, S_JOIN_B, 1, 0);
union_laws!(union_laws_b1_o1, S_JOIN_B, 1, 1);
union_laws!(union_laws_b2_o1, S_JOIN_B, 1, 2);
union_laws!(union_laws_b3_o1, S_JOIN_B, 1, 3);

/// three-member unions whose earlier member is a supertype of a later one, every member stays below
macro_rules! keeps_members {
    ($name:ident, $policy:expr, $which:expr) => {
        #[kani::proof]
        #[kani::unwind(6)]
        #[kani::stub(alloc::fmt::format, crate::verif_common::stub_format)]
        pub fn $name() {
            set_order($policy);
            if $which == 0 {
                let u1 = real(T_U_FLOAT_ARRANY_ARRINT);
                assert!(real(T_FLOAT).matches(&u1) && real(T_ARR_ANY).matches(&u1) && real(T_ARR_INT).matches(&u1));
            } else if $which == 1 {
                let u2 = real(T_U_INT_ARRU_ARRINT);
                assert!(real(T_INT).matches(&u2) && real(T_ARR_U_INT_FLOAT).matches(&u2) && real(T_ARR_INT).matches(&u2));
            } else if $which == 2 {
                let u3 = real_rev(T_U_INT_ARRU_ARRINT);
                assert!(real(T_INT).matches(&u3) && real(T_ARR_U_INT_FLOAT).matches(&u3) && real(T_ARR_INT).matches(&u3));
            } else {
                let u2 = real(T_U_INT_ARRU_ARRINT);
                let u3 = real_rev(T_U_INT_ARRU_ARRINT);
                assert!(equiv(&u2, &u3));
            }
            kani::cover!(true);
        }
    };
}
keeps_members!(union_keeps_every_member_0_o0, 0, 0);
keeps_members!(union_keeps_every_member_1_o0, 0, 1);
keeps_members!(union_keeps_every_member_2_o0, 0, 2);
keeps_members!(union_keeps_every_member_3_o0, 0, 3);
keeps_members!(union_keeps_every_member_0_o1, 1, 0);
keeps_members!(union_keeps_every_member_1_o1, 1, 1);
keeps_members!(union_keeps_every_member_2_o1, 1, 2);
keeps_members!(union_keeps_every_member_3_o1, 1, 3);

/// meet: conjoin(A, B) is a lower bound of A and of B
const S_MEET: [Ty; 10] = [T_INT, T_ANY, T_U_INT_FLOAT, T_U_INT_STR, T_ARR_INT, T_ARR_U_INT_FLOAT, T_MUT_U_INT_FLOAT, T_MUT_U_INT_STR, T_FUN_U_INT, T_FUN_INT_U];
macro_rules! meet_laws {
    ($name:ident, $policy:expr, $lo:expr, $hi:expr) => {
        #[kani::proof]
        #[kani::unwind(14)]
        #[kani::stub(alloc::fmt::format, crate::verif_common::stub_format)]
        pub fn $name() {
            set_order($policy);
            let ts: [Type; 10] = core::array::from_fn(|i| real(S_MEET[i]));
            let mut i = $lo;
            while i < $hi {
                let mut j = 0;
                while j < 10 {
                    let c = ts[i].conjoin(&ts[j]);
                    assert!(c.matches(&ts[i]));
                    assert!(c.matches(&ts[j]));
                    j += 1;
                }
                i += 1;
            }
            kani::cover!(true);
        }
    };
}
meet_laws!(meet_laws_a_o0, 0, 0, 4);
meet_laws!(meet_laws_b_o0, 0, 4, 7);
meet_laws!(meet_laws_c_o0, 0, 7, 10);
meet_laws!(meet_laws_a_o1, 1, 0, 4);
meet_laws!(meet_laws_b_o1, 1, 4, 7);
meet_laws!(meet_laws_c_o1, 1, 7, 10);

/// meet of struct types (width and depth subtyping: the struct with more fields is the smaller type)
#[kani::proof]
#[kani::unwind(8)]
#[kani::stub(alloc::fmt::format, crate::verif_common::stub_format)]
pub fn meet_laws_structs() {
    const S: [Ty; 4] = [T_ST_A_INT, T_ST_AB, T_ST_A_U, T_ST_AB_ANY];
    set_order(0);
    let ts: [Type; 4] = core::array::from_fn(|i| real(S[i]));
    let mut i = 0;
    while i < 4 {
        let mut j = 0;
        while j < 4 {
            let c = ts[i].conjoin(&ts[j]);
            assert!(c.matches(&ts[i]));
            assert!(c.matches(&ts[j]));
            j += 1;
        }
        i += 1;
    }
    kani::cover!(true);
}

/// soundness for values: A matches B  =>  every witness value of A belongs to B, judged by its
/// contents (in_ty) and by its runtime type tag (as_type().matches)
const S_VAL: [Ty; 14] = [T_INT, T_FLOAT, T_STR, T_U_INT_FLOAT, T_U_INT_STR, T_ARR_INT, T_ARR_U_INT_FLOAT, T_ARR_ANY, T_ARR_NEVER, T_TUP_INT_INT, T_TUP_U_INT, T_ST_AB, T_ST_A_U, T_MUT_INT];
macro_rules! value_soundness {
    ($name:ident, $lo:expr, $hi:expr) => {
        #[kani::proof]
        #[kani::unwind(16)]
        #[kani::stub(alloc::fmt::format, crate::verif_common::stub_format)]
        pub fn $name() {
            set_order(0);
            let ts: [Type; 14] = core::array::from_fn(|i| real(S_VAL[i]));
            let mut i = $lo;
            while i < $hi {
                let mut k = 0;
                while k < n_vals(S_VAL[i]) {
                    let v = val(S_VAL[i], k);
                    assert!(in_ty(&v, S_VAL[i]));
                    let tag = v.as_type();
                    assert!(tag.matches(&ts[i]));
                    let mut j = 0;
                    while j < 14 {
                        if ts[i].matches(&ts[j]) {
                            assert!(in_ty(&v, S_VAL[j]));
                            assert!(tag.matches(&ts[j]));
                        }
                        j += 1;
                    }
                    k += 1;
                }
                i += 1;
            }
            kani::cover!(true);
        }
    };
}
value_soundness!(value_soundness_a, 0, 5);
value_soundness!(value_soundness_b, 5, 9);
value_soundness!(value_soundness_c, 9, 14);
