//! Native replay helper: runs SimpleSL programs against the *unmodified* crate (no Kani, no std models)
//! through its public API and prints one JSON line per scenario.
//!
//! usage: verif_replay <scenarios.json>
//!   scenarios = [ {"id": "...", "kind": "program", "text": "...", "repeat": n} , ... ]
//! output: {"id":..., "outcome": "value"|"parse_error"|"exec_error"|"panic", "value": "<debug>", "type": "<static type>", "value_type": "<runtime type>"}
use simplesl::variable::{ReturnType, Typed};
use simplesl::{Code, Interpreter};
use std::panic;

fn esc(s: &str) -> String {
    let mut o = String::new();
    for c in s.chars() {
        match c {
            '"' => o.push_str("\\\""),
            '\\' => o.push_str("\\\\"),
            '\n' => o.push_str("\\n"),
            c if (c as u32) < 0x20 => o.push_str(&format!("\\u{:04x}", c as u32)),
            c => o.push(c),
        }
    }
    o
}

fn run(text: &str, stdlib: bool) -> String {
    let text = text.to_string();
    let r = panic::catch_unwind(move || {
        let interp = if stdlib { Interpreter::with_stdlib() } else { Interpreter::without_stdlib() };
        match Code::parse(&interp, &text) {
            Err(e) => format!("\"outcome\":\"parse_error\",\"value\":\"{}\"", esc(&e.to_string())),
            Ok(code) => {
                let st = code.return_type().to_string();
                match code.exec() {
                    Ok(v) => format!(
                        "\"outcome\":\"value\",\"value\":\"{}\",\"type\":\"{}\",\"value_type\":\"{}\",\"sound\":{}",
                        esc(&format!("{v:?}")), esc(&st), esc(&v.as_type().to_string()),
                        v.as_type().matches(&code.return_type())
                    ),
                    Err(e) => format!("\"outcome\":\"exec_error\",\"value\":\"{}\",\"type\":\"{}\"", esc(&e.to_string()), esc(&st)),
                }
            }
        }
    });
    match r {
        Ok(s) => s,
        Err(p) => {
            let msg = p.downcast_ref::<String>().cloned().or_else(|| p.downcast_ref::<&str>().map(|s| s.to_string())).unwrap_or_default();
            format!("\"outcome\":\"panic\",\"value\":\"{}\"", esc(&msg))
        }
    }
}

fn main() {
    panic::set_hook(Box::new(|_| {}));
    let path = std::env::args().nth(1).expect("scenario file");
    let txt = std::fs::read_to_string(path).expect("readable scenario file");
    // minimal JSON reader for the fixed scenario format: one scenario per line: id<TAB>stdlib(0|1)<TAB>program (with \n escaped as \\n)
    for line in txt.lines() {
        let mut it = line.splitn(3, '\t');
        let (Some(id), Some(stdlib), Some(prog)) = (it.next(), it.next(), it.next()) else { continue };
        let prog = prog.replace("\\n", "\n");
        println!("{{\"id\":\"{}\",{}}}", esc(id), run(&prog, stdlib == "1"));
    }
}
