#!/usr/bin/env python3
"""Rewrite a scratch copy of the crate so that std Arc/HashMap/HashSet resolve to crate::verif_model."""
import re, sys, pathlib
root = pathlib.Path(sys.argv[1])
MODEL = {'Arc': 'Arc', 'HashMap': 'HashMap', 'HashSet': 'HashSet'}
def split_top(s):
    out, depth, cur = [], 0, ''
    for ch in s:
        if ch == '{': depth += 1
        if ch == '}': depth -= 1
        if ch == ',' and depth == 0:
            out.append(cur); cur = ''
        else: cur += ch
    if cur.strip(): out.append(cur)
    return [x.strip() for x in out if x.strip()]
def flatten(prefix, item):
    m = re.match(r'^([\w:#]+?)::\{(.*)\}$', item, re.S)
    if m:
        res = []
        for sub in split_top(m.group(2)):
            res += flatten(prefix + m.group(1) + '::', sub)
        return res
    return [prefix + item]
def rewrite_use(m):
    vis, body = m.group(1) or '', m.group(2)
    paths = flatten('', body.strip())
    keep, model = [], []
    for p in paths:
        if p in ('std::sync::Arc', 'std::collections::HashMap', 'std::collections::HashSet'):
            model.append(p.split('::')[-1])
        elif p == 'std::collections::hash_set::Iter':
            model.append('Iter')
        else:
            keep.append(p)
    if not model: return m.group(0)
    out = ''.join(f'{vis}use {p};\n' for p in keep)
    out += f'{vis}use crate::verif_model::{{{", ".join(model)}}};'
    return out
for f in list(root.glob('src/**/*.rs')) + list(root.glob('macros/src/*.rs')):
    if f.name == 'verif_model.rs': continue
    s = f.read_text(); o = s
    s = re.sub(r'^([ \t]*(?:pub(?:\([a-z]+\))? )?)use (std::[^;]*);', lambda m: rewrite_use(m), s, flags=re.M)
    inmac = 'macros' in f.parts
    base = 'simplesl::verif_model::' if inmac else 'crate::verif_model::'
    s = s.replace('std::sync::Arc', base + 'Arc').replace('std::collections::HashMap', base + 'HashMap')
    if s != o: f.write_text(s); print('patched', f)
lib = root / 'src/lib.rs'
t = lib.read_text()
if 'verif_model' not in t:
    lib.write_text('pub mod verif_model;\n' + t)
