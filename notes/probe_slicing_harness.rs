use super::*;
use crate::variable::{Variable, Array, Type, Typed};
use crate::verif_model::Arc;
fn fmt_stub(_: std::fmt::Arguments<'_>) -> String { String::new() }
fn fixed_state() -> std::hash::RandomState {
    unsafe { std::mem::transmute::<(u64,u64), std::hash::RandomState>((1u64, 2u64)) }
}
fn opt_idx() -> Option<InstructionWithStr> {
    if kani::any() { let v: i64 = kani::any(); Some(InstructionWithStr{ instruction: Variable::Int(v).into(), str: "".into() }) } else { None }
}
#[kani::proof]
#[kani::unwind(6)]
#[kani::stub(alloc::fmt::format, fmt_stub)]
fn p_slicing_type() {
    let arr = Variable::Array(Arc::new(Array::new_with_type(Type::Int, [Variable::Int(1), Variable::Int(2), Variable::Int(3)].into())));
    let s = Slicing { lhs: InstructionWithStr{ instruction: arr.into(), str: "".into() }, start: opt_idx(), stop: opt_idx(), step: opt_idx() };
    let st = s.return_type();
    let mut i = Interpreter::without_stdlib();
    match s.exec(&mut i) {
        Ok(v) => assert!(v.as_type().matches(&st)),
        Err(_) => assert!(false),
    }
}
