use super::*;
use crate::variable::{Variable, Mut, Type, Array};
use crate::verif_model::Arc;

fn fmt_stub(_: std::fmt::Arguments<'_>) -> String { String::new() }

#[kani::proof]
#[kani::unwind(2)]
#[kani::stub(alloc::fmt::format, fmt_stub)]
fn p_assign_add() {
    let a: i64 = kani::any();
    let b: i64 = kani::any();
    let cell: Arc<Mut> = Arc::new(Mut { var_type: Type::Int, variable: Variable::Int(a).into() });
    let alias = cell.clone();
    let r = assign::exec(Variable::Mut(cell), Variable::Int(b), add::exec);
    assert!(matches!(r, Variable::Int(x) if x == a.wrapping_add(b)));
    let now = alias.variable.read().unwrap().clone();
    assert!(matches!(now, Variable::Int(x) if x == a.wrapping_add(b)));
}

#[kani::proof]
#[kani::unwind(3)]
#[kani::stub(alloc::fmt::format, fmt_stub)]
fn p_assign_div_err() {
    let a: i64 = kani::any();
    let b: i64 = kani::any();
    let cell: Arc<Mut> = Arc::new(Mut { var_type: Type::Int, variable: Variable::Int(a).into() });
    let alias = cell.clone();
    let r = assign::try_exec(Variable::Mut(cell), Variable::Int(b), divide::exec);
    let now = alias.variable.read().unwrap().clone();
    match r {
        Ok(Variable::Int(x)) => { assert!(b != 0); assert!(x == a.wrapping_div(b)); assert!(matches!(now, Variable::Int(y) if y == x)); }
        Err(e) => { assert!(b == 0); assert!(e == crate::ExecError::ZeroDivision); assert!(matches!(now, Variable::Int(y) if y == a)); }
        _ => assert!(false),
    }
}

#[kani::proof]
#[kani::unwind(6)]
#[kani::stub(alloc::fmt::format, fmt_stub)]
fn p_at_array() {
    let n: usize = kani::any();
    kani::assume(n <= 3);
    let base: [i64; 3] = [10, 20, 30];
    let elems: Vec<Variable> = base[..n].iter().map(|v| Variable::Int(*v)).collect();
    let arr = Variable::Array(Arc::new(Array::new_with_type(Type::Int, elems.into())));
    let i: i64 = kani::any();
    let r = at::exec(arr, Variable::Int(i));
    let nn = n as i64;
    if -nn <= i && i < nn {
        let k = if i < 0 { i + nn } else { i } as usize;
        assert!(matches!(r, Ok(Variable::Int(x)) if x == base[k]));
    } else {
        assert!(matches!(r, Err(crate::ExecError::IndexOutOfBounds)));
    }
}

#[kani::proof]
#[kani::unwind(34)]
#[kani::stub(alloc::fmt::format, fmt_stub)]
fn p_pow_base2() {
    let e: i64 = kani::any();
    kani::assume(e >= 0);
    let r = pow::exec(Variable::Int(2), Variable::Int(e));
    let expect = if e < 64 { 1i64.wrapping_shl(e as u32) } else { 0 };
    assert!(matches!(r, Ok(Variable::Int(x)) if x == expect));
}

#[kani::proof]
#[kani::unwind(5)]
#[kani::stub(alloc::fmt::format, fmt_stub)]
fn p_at_array2() {
    let n: usize = kani::any();
    kani::assume(n <= 3);
    let base: [i64; 3] = [10, 20, 30];
    let elems: Vec<Variable> = base[..n].iter().map(|v| Variable::Int(*v)).collect();
    let arr = Variable::Array(Arc::new(Array::new_with_type(Type::Int, elems.into())));
    let keep = arr.clone();
    let i: i64 = kani::any();
    let r = at::exec(arr, Variable::Int(i));
    let nn = n as i64;
    let ok = if -nn <= i && i < nn {
        let k = if i < 0 { i + nn } else { i } as usize;
        matches!(r, Ok(Variable::Int(x)) if x == base[k])
    } else {
        matches!(r, Err(crate::ExecError::IndexOutOfBounds))
    };
    std::mem::forget(r); std::mem::forget(keep);
    assert!(ok);
}
