use super::*;
use crate::verif_model::Arc;

fn any_leaf() -> Type {
    match kani::any::<u8>() % 7 { 0 => Type::Int, 1 => Type::Float, 2 => Type::String, 3 => Type::Bool, 4 => Type::Void, 5 => Type::Any, _ => Type::Never }
}
fn any_t1() -> Type {
    match kani::any::<u8>() % 5 {
        0 => any_leaf(),
        1 => Type::Array(Arc::new(any_leaf())),
        2 => Type::Mut(Arc::new(any_leaf())),
        3 => Type::Tuple([any_leaf(), any_leaf()].into()),
        _ => Type::Function(Arc::new(FunctionType { params: [any_leaf()].into(), return_type: any_leaf() })),
    }
}
#[kani::proof]
#[kani::unwind(3)]
fn p_matches_trans() {
    let a = any_t1(); let b = any_t1(); let c = any_t1();
    if a.matches(&b) && b.matches(&c) { assert!(a.matches(&c)); }
    assert!(a.matches(&a));
    std::mem::forget(a); std::mem::forget(b); std::mem::forget(c);
}
#[kani::proof]
#[kani::unwind(2)]
fn p_array_eq() {
    let t1 = any_leaf(); let t2 = any_leaf();
    let x: i64 = kani::any();
    let a1 = Variable::Array(Arc::new(Array::new_with_type(t1, [Variable::Int(x)].into())));
    let a2 = Variable::Array(Arc::new(Array::new_with_type(t2, [Variable::Int(x)].into())));
    assert!(a1 == a2);
}

fn any_base() -> Type {
    match kani::any::<u8>() % 5 { 0 => Type::Int, 1 => Type::Float, 2 => Type::String, 3 => Type::Bool, _ => Type::Void }
}
fn any_u() -> Type {
    match kani::any::<u8>() % 4 {
        0 => any_leaf(),
        1 => any_base() | any_base(),
        2 => any_base() | any_base() | any_base(),
        _ => Type::Array(Arc::new(any_base() | any_base())),
    }
}
#[kani::proof]
#[kani::unwind(5)]
fn p_multi_laws() {
    let a = any_u(); let b = any_u(); let c = any_u();
    assert!(a.matches(&a));
    if a.matches(&b) && b.matches(&c) { assert!(a.matches(&c)); }
    let j = a.clone() | b.clone();
    assert!(a.matches(&j));
    assert!(b.matches(&j));
    if a.matches(&c) && b.matches(&c) { assert!(j.matches(&c)); }
    std::mem::forget(a); std::mem::forget(b); std::mem::forget(c); std::mem::forget(j);
}
#[kani::proof]
#[kani::unwind(5)]
fn p_index_result_order() {
    // index_result of a union must not depend on iteration order
    let t = Type::Array(Arc::new(any_base())) | Type::String | Type::Array(Arc::new(any_base()));
    let t2 = t.clone();
    let r1 = t.index_result(); let r2 = t2.index_result();
    assert!(r1 == r2);
    std::mem::forget(t); std::mem::forget(t2); std::mem::forget(r1); std::mem::forget(r2);
}
#[kani::proof]
#[kani::unwind(3)]
fn p_mut_elem_order() {
    let t = Type::Array(Arc::new(Type::Int)) | Type::Mut(Arc::new(Type::Int));
    let t2 = t.clone();
    assert!(t.mut_element_type() == t2.mut_element_type());
}
